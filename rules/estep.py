"""E-TABLE.step: the recursive (Shannon expansion) step of the apply algorithms, interpreted from HIR.

The functions are interpreted on *structured* abstract operands: inner nodes N(level; children) whose children are
opaque atoms, in every relative level configuration (same level, f above g, g above f; for MTBDDs also a
terminal operand), for BCDDs with every combination of complement tags on the operand edge and on the else child.
The apply cache always misses, recursive calls (direct, through `Recursor::binary/ternary`, or to a sibling
algorithm) are builtins returning an operator node with the meaning of the callee's name and const tag, and
`reduce*` is a builtin that yields a node (level; children) -- the reduction rules themselves are the subject of
E-TABLE.reduce.  Checked per situation:
  meaning   for all values of the atoms and of the decision variables, the returned edge denotes OP(f, g[, h])
            (zero-suppressed semantics for ZBDDs, three-valued for TDDs, extended reals with NaN for MTBDDs);
  order     a created node is labelled with the top-most operand level, and nothing placed below it still contains
            an operand node of that level or above (the ordering invariant of the result);
  cache     the entry added to the apply cache is keyed by the operands of the lookup and stores the returned edge.
Together with the terminal tables (E-TABLE.<kind>, .shortcut) and E-TABLE.reduce this covers both the base and the
inductive case of the structural induction that the correctness of `apply` rests on; what remains undecided is
everything outside this step shape (parallel scheduling, memory exhaustion, the cache implementation).
"""
import itertools
import math
import re

import epick
import ereduce
import tables
from epick import SNode
from ereduce import ETAG

CPATH = ETAG + "::Complemented"


def complemented(e):
    t = e.tag
    return t is not None and t.__class__ is Enum and t.path == CPATH
from lib import hirutil as H
from lib.interp import Beyond, Edge, Enum, Interp, Opaque, Panic, Unrecognised, enumerate_runs
from tables import OK, NONE, SOME, NODE_INNER, NODE_TERMINAL, ORD

MAXLEVEL = 2 ** 32 - 1


# ---- algebras -------------------------------------------------------------------------------------------
def _num(op):
    f = tables.NUM_OPS[op]
    return f


class Alg:
    def __init__(self, name, atom_values, branches, ops, zero_suppressed=False, same=None):
        self.name = name
        self.atom_values = atom_values
        self.branches = branches          # children per node = values of a decision variable
        self.ops = ops                    # name -> python function
        self.zs = zero_suppressed
        self.same = same or (lambda a, b: a == b)


def _ite_bool(a, b, c):
    return b if a else c


BOOL_OPS = dict(tables.BDD_SPEC)
BOOL_OPS.update({"Not": lambda a: 1 - a, "Ite": _ite_bool})
ZBDD_OPS = {"Ite": lambda a, b, c: b if a else c, "Union": lambda a, b: a | b, "Intsec": lambda a, b: a & b, "Diff": lambda a, b: a & (1 - b),
            "SymmDiff": lambda a, b: a ^ b}
TVL_OPS = dict(tables.TDD_SPEC)
TVL_OPS.update({"Not": lambda a: 2 - a, "Ite": __import__("ewrap").tvl_ite})
NUM_OPS = {k: tables.NUM_OPS[v] for k, v in tables.MTBDD_SPEC.items()}
NUM_OPS["Ite"] = lambda a, b, c: c if a == 0.0 else b      # the condition is 0-1-valued
ALG_BOOL = Alg("bool", [0, 1], 2, BOOL_OPS)
ALG_ZBDD = Alg("zbdd", [0, 1], 2, ZBDD_OPS, zero_suppressed=True)
ALG_TVL = Alg("tvl", [0, 1, 2], 3, TVL_OPS)
ALG_NUM = Alg("num", [math.nan, -math.inf, 0.0, 2.0, math.inf], 2, NUM_OPS, same=tables.num_same)


# ---- abstract operands --------------------------------------------------------------------------------------
def atom(name, tag=None):
    return Edge(("A", name), tag)


def snode(name, level, kids, tag=None):
    return Edge(("S", SNode(name, level, kids)), tag)


def lab(e):
    if isinstance(e, (tuple, list)):
        return "[%s]" % ", ".join(lab(x) for x in e)
    if not isinstance(e, Edge):
        return repr(e)
    n = e.node
    c = "!" if complemented(e) else ""
    if n[0] == "A":
        return c + n[1]
    if n[0] == "S":
        return c + "%s@L%d(%s)" % (n[1].name, n[1].level, ",".join(lab(k) for k in n[1].children))
    if n[0] == "OP":
        return c + "%s(%s%s)" % (n[1], ", ".join(lab(x) for x in n[2]), "" if len(n) < 4 else "; %s" % lab(n[3]))
    if n[0] == "MK":
        return c + "node@L%s(%s)" % (n[1], ", ".join(lab(x) for x in n[2]))
    if n[0] == "TAUT":
        return "tautology@L%s" % (n[1],)
    if n[0] == "T":
        return c + "T:%s" % (n[1].short if isinstance(n[1], Enum) else n[1],)
    return c + repr(n)


class Spec:
    """per-kind description: how to read terminals and which local functions mean what"""

    def __init__(self, kind, alg, mod, root, op_enum, terminal_value, bcdd=False, atom_domain=None):
        self.atom_domain = atom_domain or (lambda name: alg.atom_values)
        self.kind = kind
        self.alg = alg
        self.mod = mod            # module of the algorithm functions
        self.root = root          # module with reduce / collect_children / terminal tables
        self.op_enum = op_enum
        self.terminal_value = terminal_value   # Edge -> value or None
        self.bcdd = bcdd


def den(spec, e, val, zeroed=frozenset()):
    """denotation of an abstract edge under `val` (atoms -> value, ("v", level) -> branch index)"""
    alg = spec.alg
    n = e.node

    def var(l):
        return 0 if l in zeroed else val[("v", l)]
    if n[0] == "TAUT":
        # ZBDD tautology of a level: every subset of the variables on that level and below
        v = 0 if any(var(l) for l in val["$levels"] if l < n[1]) else 1
    elif n[0] == "A":
        v = val[n[1]]
        if alg.zs and any(var(l) for l in val["$levels"]):
            # a family over the variables below all modelled levels contains no modelled variable
            v = 0
    elif n[0] == "T":
        v = spec.terminal_value(e, val)
        if alg.zs and v and any(var(l) for l in val["$levels"]):
            v = 0
    elif n[0] in ("S", "MK"):
        level, kids = (n[1].level, n[1].children) if n[0] == "S" else (n[1], n[2])
        if not isinstance(level, int):
            raise Unrecognised("node level %r" % (level,))
        if alg.zs:
            if any(var(l) for l in val["$levels"] if l < level):
                v = 0
            else:
                b = var(level)
                # children: (hi, lo); variable present -> hi
                v = den(spec, kids[0] if b else kids[1], val, zeroed | {l for l in val["$levels"] if l <= level})
        else:
            b = var(level)
            # branch index 0 = first child
            v = den(spec, kids[b], val, zeroed)
    elif n[0] == "OP" and n[1] in QFOLD:
        # quantification of the first argument over the variables of the positive cube given second
        body, cube = n[2][0], n[2][1]
        lv = cube_levels(spec, cube, val)
        v = None
        for bs in itertools.product((0, 1), repeat=len(lv)):
            val2 = dict(val)
            for l, b in zip(lv, bs):
                val2[("v", l)] = b
            x = den(spec, body, val2, zeroed)
            v = x if v is None else QFOLD[n[1]](v, x)
    elif n[0] == "OP" and n[1] in ("Subset0", "Subset1", "Change"):
        # set-family operations on variable `n[3]` (a modelled level): chi'(a) in terms of chi(a)
        body, l = n[2][0], n[3]
        if l not in val["$levels"]:
            raise Unrecognised("subset variable on unmodelled level %r" % (l,))
        if l in zeroed:
            zeroed = zeroed - {l}
            val = dict(val)
            val[("v", l)] = 0
        present = val[("v", l)]
        val2 = dict(val)
        if n[1] == "Subset0":
            v = 0 if present else den(spec, body, val2, zeroed)
        elif n[1] == "Subset1":
            val2[("v", l)] = 1
            v = 0 if present else den(spec, body, val2, zeroed)
        else:
            val2[("v", l)] = 0 if present else 1
            v = den(spec, body, val2, zeroed)
    elif n[0] == "OP" and n[1] == "ZRestrict":
        # restrict on the Boolean-function view of a ZBDD whose nodes are all on level >= n[3]: the result is a family
        # over the same variables in which the cube's variables are don't-care
        body, cube, lvl = n[2][0], n[2][1], n[3]
        if any(var(l) for l in val["$levels"] if l < lvl):
            v = 0
        else:
            forced = zcube_forced(spec, cube, val, lvl)
            if any(k[1] in zeroed for k in forced):
                raise Unrecognised("restricted variable is zero-suppressed in this context")
            val2 = dict(val)
            val2.update(forced)
            v = den(spec, body, val2, zeroed)
    elif n[0] == "OP" and n[1] == "Subst":
        body, table = n[2][0], n[3]
        val2 = dict(val)
        for l in val["$levels"]:
            if l < len(table):
                val2[("v", l)] = 0 if den(spec, table[l], val, zeroed) else 1
        v = den(spec, body, val2, zeroed)
    elif n[0] == "OP" and n[1] == "Restrict":
        body, cube = n[2][0], n[2][1]
        val2 = dict(val)
        val2.update(cube_forced(spec, cube, val))
        v = den(spec, body, val2, zeroed)
    elif n[0] == "OP":
        f = alg.ops.get(n[1])
        if f is None:
            raise Unrecognised("operator %s in %s algebra" % (n[1], alg.name))
        v = f(*[den(spec, x, val, zeroed) for x in n[2]])
    else:
        raise Unrecognised("edge %r" % (e,))
    if complemented(e):
        v = 1 - v
    return v


QFOLD = {"Forall": lambda a, b: a & b, "Exists": lambda a, b: a | b, "Unique": lambda a, b: a ^ b}
_CUBE = {}


def cube_models(spec, cube, val):
    """satisfying assignments of a (structured, atom-free) cube over the modelled levels"""
    key = (id(cube), tuple(val["$levels"]))
    if key not in _CUBE:
        if atoms_of([cube]):
            raise Unrecognised("variable set / cube %s contains opaque parts" % lab(cube))
        lv = val["$levels"]
        ms = []
        for bs in itertools.product((0, 1), repeat=len(lv)):
            v2 = {"$levels": lv}
            v2.update({("v", l): b for l, b in zip(lv, bs)})
            if den(spec, cube, v2):
                ms.append(bs)
        _CUBE[key] = (cube, ms)      # keep the cube alive so that id() stays unique
    return _CUBE[key][1]


_FORCED = {}


def cube_forced(spec, cube, val):
    key = (id(cube), tuple(val["$levels"]))
    if key not in _FORCED:
        _FORCED[key] = (cube, _cube_forced(spec, cube, val))
    return _FORCED[key][1]


def _cube_forced(spec, cube, val):
    lv = val["$levels"]
    ms = cube_models(spec, cube, val)
    out = {}
    for i, l in enumerate(lv):
        vs = {m[i] for m in ms}
        if len(vs) == 1:
            out[("v", l)] = vs.pop()
    if len(ms) != 2 ** (len(lv) - len(out)):
        raise Unrecognised("%s is not a conjunction of literals" % lab(cube))
    return out


def cube_levels(spec, cube, val):
    return sorted(k[1] for k in cube_forced(spec, cube, val))


# ---- bit-parallel denotation for the Boolean (non zero-suppressed) kinds ------------------------------------------
class BitCtx:
    """all valuations at once: bit i of a mask = value under valuation i; index bits: levels (low), then atoms"""

    def __init__(self, names, levels):
        self.names = list(names)
        self.levels = list(levels)
        self.nbits = len(self.levels) + len(self.names)
        self.N = 1 << self.nbits
        self.full = (1 << self.N) - 1
        self.pos = {}
        for j, l in enumerate(self.levels):
            self.pos[("v", l)] = j
        for j, a in enumerate(self.names):
            self.pos[a] = len(self.levels) + j
        self.mask = {k: self._mask(p) for k, p in self.pos.items()}

    def _mask(self, p):
        s = 1 << p
        m = ((1 << s) - 1) << s
        width = 2 * s
        while width < self.N:
            m |= m << width
            width *= 2
        return m & self.full

    def cof(self, f, key, b):
        """cofactor of f w.r.t. index bit `key` = b, as a mask that no longer depends on that bit"""
        s = 1 << self.pos[key]
        m = self.mask[key]
        if b:
            c = f & m
            return c | (c >> s)
        c = f & ~m & self.full
        return c | (c << s)

    def decode(self, i):
        return {k: (i >> p) & 1 for k, p in self.pos.items()}


BIT_OPS = {
    "And": lambda F, a, b: a & b, "Or": lambda F, a, b: a | b, "Xor": lambda F, a, b: a ^ b,
    "Equiv": lambda F, a, b: F & ~(a ^ b), "Nand": lambda F, a, b: F & ~(a & b), "Nor": lambda F, a, b: F & ~(a | b),
    "Imp": lambda F, a, b: (F & ~a) | b, "ImpStrict": lambda F, a, b: (F & ~a) & b,
    "Not": lambda F, a: F & ~a, "Ite": lambda F, a, b, c: (a & b) | (F & ~a & c),
}


def bden(spec, e, B):
    n = e.node
    k = n[0]
    if k == "A":
        v = B.mask[n[1]]
    elif k == "T":
        v = B.full if spec.terminal_value(e, None) else 0
    elif k in ("S", "MK"):
        level, kids = (n[1].level, n[1].children) if k == "S" else (n[1], n[2])
        if getattr(n[1], "opaque_of", None) and k == "S":
            v = B.mask[n[1].opaque_of]
        else:
            if ("v", level) not in B.mask:
                raise Unrecognised("node level %r" % (level,))
            m = B.mask[("v", level)]
            v = (B.full & ~m & bden(spec, kids[0], B)) | (m & bden(spec, kids[1], B))
    elif k == "OP" and n[1] in QFOLD:
        body = bden(spec, n[2][0], B)
        v = body
        for key, _ in sorted(bcube_forced(spec, n[2][1], B).items()):
            c0, c1 = B.cof(v, key, 0), B.cof(v, key, 1)
            v = {"Forall": c0 & c1, "Exists": c0 | c1, "Unique": c0 ^ c1}[n[1]]
    elif k == "OP" and n[1] == "Subst":
        body = bden(spec, n[2][0], B)
        table = n[3]
        lv = [l for l in B.levels if l < len(table)]
        repl = {l: bden(spec, table[l], B) for l in lv}
        v = 0
        for bs in itertools.product((0, 1), repeat=len(lv)):
            # all valuations where, for every substituted level, "replacement is true" <=> branch 0 is selected
            sel = B.full
            c = body
            for l, b in zip(lv, bs):
                sel &= (B.full & ~repl[l]) if b else repl[l]
                c = B.cof(c, ("v", l), b)
            v |= sel & c
    elif k == "OP" and n[1] == "Restrict":
        v = bden(spec, n[2][0], B)
        for key, b in bcube_forced(spec, n[2][1], B).items():
            v = B.cof(v, key, b)
    elif k == "OP":
        f = BIT_OPS.get(n[1])
        if f is None:
            raise Unrecognised("operator %s" % n[1])
        v = f(B.full, *[bden(spec, x, B) for x in n[2]])
    else:
        raise Unrecognised("edge %r" % (e,))
    if complemented(e):
        v = B.full & ~v
    return v


def bcube_forced(spec, cube, B):
    """literals of a cube: {("v", level): branch}; fails unless the edge denotes a conjunction of literals over levels"""
    m = bden(spec, cube, B)
    out = {}
    for l in B.levels:
        key = ("v", l)
        c0, c1 = B.cof(m, key, 0), B.cof(m, key, 1)
        if c0 == 0 and c1 != 0:
            out[key] = 1
        elif c1 == 0 and c0 != 0:
            out[key] = 0
    chk = B.full
    for key, b in out.items():
        chk &= B.mask[key] if b else B.full & ~B.mask[key]
    if chk != m:
        raise Unrecognised("%s is not a conjunction of literals" % lab(cube))
    return out


_ZFORCED = {}


def zcube_forced(spec, cube, val, lvl):
    """literals of a ZBDD cube (Boolean-function view): levels >= lvl on which all models agree"""
    lv = [l for l in val["$levels"] if l >= lvl]
    key = (id(cube), tuple(val["$levels"]), lvl)
    if key not in _ZFORCED:
        if atoms_of([cube]):
            raise Unrecognised("cube %s contains opaque parts" % lab(cube))
        ms = []
        for bs in itertools.product((0, 1), repeat=len(lv)):
            v2 = {"$levels": val["$levels"]}
            v2.update({("v", l): 0 for l in val["$levels"]})
            v2.update({("v", l): b for l, b in zip(lv, bs)})
            if den(spec, cube, v2):
                ms.append(bs)
        out = {}
        for i, l in enumerate(lv):
            vs = {m[i] for m in ms}
            if len(vs) == 1:
                out[("v", l)] = vs.pop()
        if not ms or len(ms) != 2 ** (len(lv) - len(out)):
            raise Unrecognised("%s is not a conjunction of literals over the levels >= %d" % (lab(cube), lvl))
        _ZFORCED[key] = (cube, out)
    return _ZFORCED[key][1]


def contains_level_at_or_above(e, level):
    n = e.node
    if n[0] == "S":
        return n[1].level <= level
    if n[0] == "OP" and n[1] == "Subst":
        return False     # the replacement functions may mention any level: `ite` re-establishes the order
    if n[0] == "OP":
        return any(contains_level_at_or_above(x, level) for x in n[2])
    if n[0] == "MK":
        return (isinstance(n[1], int) and n[1] <= level) or any(contains_level_at_or_above(x, level) for x in n[2])
    return False


# ---- domain ------------------------------------------------------------------------------------------------
class StepDomain(epick.PickDomain):
    def __init__(self, F, fid, spec, algos):
        super().__init__(F, fid)
        self.kind = spec.kind
        self.spec = spec
        self.algos = algos            # did -> (opname | callable(consts) -> opname)
        self.opnames = {int(v["discr"]): v["n"] for v in F.adts[spec.op_enum]["variants"]}
        self.gets = []
        self.adds = []
        self.lazy = {}
        self.helpers = set()

    finite_loops = True

    def iterate(self, it, v):
        from lib.interp import StructVal
        if isinstance(v, (list, tuple)):
            return list(v)
        if isinstance(v, StructVal) and v.path.endswith("Range") and isinstance(v.fields.get("start"), int) \
                and isinstance(v.fields.get("end"), int):
            return list(range(v.fields["start"], v.fields["end"]))
        return None

    def insert(self, view, node):
        # a node created directly in a level view (not through reduce): must be filed in the view of its own level
        if not (isinstance(view, tuple) and view and view[0] == "levelview") or not (isinstance(node, tuple) and node[0] == "node"):
            raise Unrecognised("get_or_insert of %r into %r" % (node, view))
        if view[1] != node[1]:
            raise Panic("a node labelled level %r is inserted into the view of level %r" % (node[1], view[1]))
        kids = tuple(node[2])
        if self.kind is tables.ZBDD:
            k0 = kids[0]
            if isinstance(k0, Edge) and k0.node[0] == "T" and getattr(k0.node[1], "short", "") == "Empty":
                raise Panic("a node with an empty hi edge is created without the zero-suppression rule (not reduced)")
            if isinstance(k0, Edge) and k0.node[0] == "OP":
                t = self.node_of(k0)
                if isinstance(t, Enum) and t.path == NODE_TERMINAL and getattr(t.args[0], "short", "") == "Empty":
                    raise Panic("a node whose hi edge %s is the empty family is created without the zero-suppression rule (not reduced)" % lab(k0))
        elif len(set(map(repr, kids))) == 1:
            raise Panic("a node with equal children is created without the reduction rule (not reduced)")
        return Edge(("MK", node[1], kids), self.default_tag())

    def default_tag(self):
        return Enum(ETAG + "::None") if self.spec.bcdd else None

    def terminal_edge(self, tv):
        return Edge(("T", tv), self.default_tag())

    def node_of(self, edge):
        if isinstance(edge, Edge) and edge.node[0] == "A":
            # an opaque child, looked into: an inner node far below every modelled level whose own children are
            # fresh atoms (terminal children are covered by separate situations)
            nm = edge.node[1]
            if nm not in self.lazy:
                sn = SNode(nm, 1000 + len(self.lazy), [atom(nm + ".0", self.default_tag()), atom(nm + ".1", self.default_tag())])
                sn.opaque_of = nm
                self.lazy[nm] = sn
            return Enum(NODE_INNER, [self.lazy[nm]])
        if isinstance(edge, Edge) and edge.node[0] == "OP" and self.kind is tables.ZBDD and getattr(self.spec, "always_levels", None) \
                and _closed(edge):
            # the result of a recursive call on atom-free operands is a definite family: by canonicity it is the Empty /
            # Base terminal exactly when it denotes the empty family / the family {{}} (otherwise an inner node)
            lv = sorted(self.spec.always_levels)
            try:
                vals = []
                for bs in itertools.product((0, 1), repeat=len(lv)):
                    val = {"$levels": lv}
                    val.update({("v", l): b for l, b in zip(lv, bs)})
                    vals.append((bs, den(self.spec, edge, val)))
            except Unrecognised:
                vals = None
            if vals is not None:
                if not any(v for _, v in vals):
                    return Enum(NODE_TERMINAL, [Enum(tables.ZBDD.terminal_enum + "::Empty")])
                if all(bool(v) == (not any(bs)) for bs, v in vals):
                    return Enum(NODE_TERMINAL, [Enum(tables.ZBDD.terminal_enum + "::Base")])
        if isinstance(edge, Edge) and edge.node[0] in ("OP", "MK"):
            return Enum(NODE_INNER, [Opaque("node of " + lab(edge))])
        return super().node_of(edge)

    def compare(self, it, a, b):
        if isinstance(a, Edge) and isinstance(b, Edge):
            if a == b:
                return 0
            ka, kb = lab(a) + repr(a.tag), lab(b) + repr(b.tag)
            lo_first = ka < kb
            c = it.fork(("edgeord", min(ka, kb), max(ka, kb)), 2, "edge order")
            return -1 if (c == 0) == lo_first else 1
        return super().compare(it, a, b)

    def const(self, it, e):
        did = e.get("did") or e.get("n")
        c = self.F.consts.get(did)
        if c and "body" in c and c["body"].get("k") == "lit":
            return it.lit(c["body"])
        return super().const(it, e)

    def binop(self, it, o, l, r):
        if o == "^" and isinstance(l, Enum) and isinstance(r, Enum) and l.path.startswith(ETAG) and r.path.startswith(ETAG):
            fid = self._find_impl_fn("std::ops::BitXor", ETAG, "bitxor")
            if fid:
                return it.call_fn(fid, [l, r])
        return super().binop(it, o, l, r)

    def opname(self, did, consts):
        m = self.algos[did]
        if callable(m):
            return m(self, consts)
        return m

    def apply_meaning(self, did, consts, edges):
        m = self.algos[did]
        if isinstance(m, tuple) and m[0] == "build":
            return m[1](self, consts, list(edges))
        return Edge(("OP", self.opname(did, consts), tuple(edges)), self.default_tag())

    def _consts_of(self, node, env):
        out = []
        for c in H.const_args(node):
            out.append(env.get("$consts", {}).get(c, c) if isinstance(c, str) else c)
        return out

    def method(self, it, m, e, env):
        name = m.rsplit("::", 1)[-1]
        if name == "should_switch_to_sequential":
            it.recv(e, env)
            return False
        if m.endswith("HasApplyCache::apply_cache"):
            it.recv(e, env)
            return Opaque("cache")
        if m.startswith("oxidd_core::ApplyCache::get"):
            it.recv(e, env)
            self.gets.append(it.args(e, env))
            return Enum(NONE)
        if m.startswith("oxidd_core::ApplyCache::add"):
            it.recv(e, env)
            self.adds.append(it.args(e, env))
            return ()
        if name == "zbdd_cache":
            it.recv(e, env)
            return Opaque("zbddcache")
        if name == "tautology":
            r = it.recv(e, env)
            if isinstance(r, Opaque) and r.what == "zbddcache":
                (lvl,) = it.args(e, env)
                return Edge(("TAUT", lvl), None)
        if m.endswith("Recursor::binary_ternary"):
            it.recv(e, env)
            _, f1, t1, f2, t2 = it.args(e, env)
            out = []
            for fv, t in ((f1, t1), (f2, t2)):
                if not (isinstance(fv, tuple) and fv and fv[0] == "fnref") or fv[1].get("did") not in self.algos:
                    raise Unrecognised("recursor operation %r" % (fv,))
                out.append(self.apply_meaning(fv[1]["did"], [], list(t)))
            return Enum(OK, [tuple(out)])
        if name == "len":
            r = it.recv(e, env)
            if isinstance(r, (tuple, list)):
                return len(r)
            raise Unrecognised("len of %r" % (r,))
        if m.endswith("Recursor::binary") or m.endswith("Recursor::ternary") or m.endswith("Recursor::subset") \
                or m.endswith("Recursor::subst") or m.endswith("Recursor::unary") or m.endswith("Recursor::binary_with_level"):
            it.recv(e, env)
            args = it.args(e, env)
            fv, tups = args[0], args[2:]
            if not (isinstance(fv, tuple) and fv and fv[0] == "fnref"):
                raise Unrecognised("recursor operation %r" % (fv,))
            did = fv[1].get("did")
            if did not in self.algos:
                raise Unrecognised("recursion into %s" % did)
            consts = []
            for g in fv[1].get("ga") or []:
                if isinstance(g, dict):
                    consts.append(int(g["int"]) if "int" in g else env.get("$consts", {}).get(g["c"], g["c"]))
            if m.endswith("Recursor::unary"):
                tups = [(t,) for t in tups]
            return Enum(OK, [tuple(self.apply_meaning(did, consts, list(t)) for t in tups)])
        if m.endswith("Borrowed::<'a, E>::edge_with_tag"):
            r = it.recv(e, env)
            (tag,) = it.args(e, env)
            return Edge(r.node, tag)
        if m.endswith("::unwrap_inner"):
            r = it.recv(e, env)
            if isinstance(r, Enum) and r.path == NODE_INNER:
                return r.args[0]
            raise Panic("unwrap_inner on a terminal")
        if m in ("std::cmp::Ord::min", "std::cmp::Ord::max", "core::cmp::Ord::min", "core::cmp::Ord::max"):
            a = it.recv(e, env)
            (b,) = it.args(e, env)
            if isinstance(a, int) and isinstance(b, int):
                return min(a, b) if name == "min" else max(a, b)
            raise Unrecognised("%s of %r and %r" % (name, a, b))
        if name == "rev":
            r = it.recv(e, env)
            items = self.iterate(it, r)
            if items is not None:
                return list(reversed(items))
        if m in ("std::cmp::Ord::cmp", "core::cmp::Ord::cmp"):
            a = it.recv(e, env)
            (b,) = it.args(e, env)
            if isinstance(a, int) and isinstance(b, int):
                return Enum(ORD + ("Less" if a < b else "Greater" if a > b else "Equal"))
            raise Unrecognised("cmp of %r and %r" % (a, b))
        return super().method(it, m, e, env)

    def call(self, it, name, f, args_e, env, e):
        did = f.get("did", "")
        if did in self.algos:
            args = [it.ev(a, env) for a in args_e]
            m = self.algos[did]
            edges = [a for a in args if isinstance(a, Edge)] if not (isinstance(m, tuple) and m[0] == "build") else \
                [a for a in args if isinstance(a, (Edge, int)) and not isinstance(a, bool)]
            return Enum(OK, [self.apply_meaning(did, self._consts_of(e, env), edges)])
        short = did.rsplit("::", 1)[-1]
        if did == "oxidd_core::DiagramRules::cofactors" and self.spec.bcdd:
            # specified builtin: the cofactors of a node reached through an edge with tag `tag` are its children
            # with the tag applied (BCDDRules::cofactors)
            tag, node = [it.ev(a, env) for a in args_e]
            flip = isinstance(tag, Enum) and tag.short == "Complemented"
            return ereduce.IterObj([epick.ctag(c, flip) for c in node.children])
        if did.startswith(self.spec.root + "::reduce") and did.count("::") == self.spec.root.count("::") + 1:
            args = [it.ev(a, env) for a in args_e]
            level = args[1]
            kids = tuple(a for a in args[2:] if isinstance(a, Edge))
            if short == "reduce1" and len(kids) == 1:
                kids = (kids[0], kids[0])       # don't-care node (both children equal); reduce1 itself is in E-TABLE.reduce
            return Enum(OK, [Edge(("MK", level, kids), self.default_tag())])
        if did in ("std::cmp::Ord::cmp", "core::cmp::Ord::cmp"):
            a, b = [it.ev(x, env) for x in args_e]
            if isinstance(a, int) and isinstance(b, int):
                return Enum(ORD + ("Less" if a < b else "Greater" if a > b else "Equal"))
            raise Unrecognised("cmp of %r, %r" % (a, b))
        if did in ("core::cmp::min", "core::cmp::max", "std::cmp::min", "std::cmp::max"):
            a, b = [it.ev(x, env) for x in args_e]
            if isinstance(a, int) and isinstance(b, int):
                return min(a, b) if short == "min" else max(a, b)
            raise Unrecognised("%s of %r, %r" % (short, a, b))
        if did in self.F.hir and did.startswith(self.spec.root.split("::")[0] + "::") and did != self.fid:
            args = [it.ev(a, env) for a in args_e]
            return it.call_fn(did, args, self._const_args(it, f, env, did))
        return super().call(it, name, f, args_e, env, e)


# ---- driver ------------------------------------------------------------------------------------------------
ALL_PARTS = ("bin", "ite", "quant", "restrict", "subst", "subset", "not")
PARTS = [ALL_PARTS]


def part_of(label):
    for key, part in (("quant", "quant"), ("restrict", "restrict"), ("substitute", "subst"), ("subset", "subset"),
                      ("apply_ite", "ite"), ("apply_not", "not")):
        if key in label:
            return part
    return "bin"


def check_step(ctx, F, rule, spec, fid, algos, situations, want_op, consts=None, label=None, nfun=None):
    """situations: list of (description, [operand edges]); want_op: operator name of the function under test"""
    label = label or fid.rsplit("::", 1)[-1]
    if part_of(label) not in PARTS[0]:
        return 0
    if not ctx.anchor(rule, fid, fid in F.hir):
        return 0
    h = F.hir[fid]
    pn = [p.get("n") for p in h["params"]]
    has_rec = len(pn) > 1 and pn[1] == "rec"
    n = decided = 0
    fails = []
    alg = spec.alg
    for desc, ops in situations:
        args = [Opaque("manager")] + ([Opaque("rec")] if has_rec else []) + list(ops)
        doms = []

        def mk(oracle):
            d = StepDomain(F, fid, spec, algos)
            doms.append(d)
            return Interp(F, d, oracle, max_depth=6)
        for trace, (status, val) in enumerate_runs(mk, lambda it: it.call_fn(fid, args, dict(consts or {}))):
            n += 1
            dom = doms[-1]
            sit = "%s(%s)" % (label, ", ".join(lab(o) for o in ops))
            key = "%s:%s:%s" % (rule, label, desc)
            if status != "ok":
                fails.append("%s: %s %s" % (sit, status, val))
                ctx.ob(rule + ".case", key, False, "", report=False)
                continue
            if isinstance(val, Enum) and val.path == OK:
                val = val.args[0]
            if not isinstance(val, Edge):
                fails.append("%s: result %r" % (sit, val))
                continue
            problems = []
            try:
                problems = judge(spec, ops, val, want_op, dom, nfun)
            except Unrecognised as u:
                problems = ["UNRECOGNISED-SHAPE %s" % u]
            decided += 1
            ctx.ob(rule + ".case", key, not problems, "%s -> %s" % (sit, lab(val)), report=False)
            for p in problems:
                fails.append("%s -> %s: %s" % (sit, lab(val), p))
    nice = F.nice(fid) + ("" if not consts else "<%s>" % ",".join("%s=%s" % kv for kv in sorted(consts.items())))
    ctx.ob(rule, "%s:%s" % (rule, nice if not label else F.nice(fid) + ":" + label), not fails and decided > 0,
           ("%s (%s): %d problem(s) in the recursive step; first: %s" % (nice, F.where(fid), len(fails), " || ".join(fails[:3])))
           if fails else ("%s: recursive step agrees with %s in %d situations" % (nice, label if callable(want_op) else want_op, decided) if decided else
                          "%s: no situation decided" % nice))
    return n


def _flatten(x):
    if isinstance(x, (tuple, list)):
        for y in x:
            yield from _flatten(y)
    else:
        yield x


def atoms_of(ops):
    out = []

    def walk(e):
        n = e.node
        if n[0] == "A" and n[1] not in out:
            out.append(n[1])
        elif n[0] == "S":
            for k in n[1].children:
                walk(k)
        elif n[0] == "T" and isinstance(n[1], tuple) and n[1] and n[1][0] == "sym" and n[1][1] not in out:
            out.append(n[1][1])
    for o in _flatten(ops):
        if isinstance(o, Edge):
            walk(o)
    return out


def _closed(e):
    """no opaque atom anywhere in the (possibly built / computed) edge"""
    if isinstance(e, (list, tuple)) and not isinstance(e, Edge):
        return all(_closed(x) for x in e if isinstance(x, (Edge, list, tuple)))
    if not isinstance(e, Edge):
        return True
    n = e.node
    if n[0] == "A":
        return False
    if n[0] == "T":
        return not (isinstance(n[1], tuple) and n[1] and n[1][0] == "sym")
    if n[0] == "S":
        return not getattr(n[1], "opaque_of", None) and all(_closed(k) for k in n[1].children)
    if n[0] == "MK":
        return all(_closed(k) for k in n[2])
    if n[0] == "OP":
        return all(_closed(k) for k in n[2]) and (len(n) < 4 or _closed(n[3]))
    return n[0] == "TAUT"


def valuations(spec, ops, names, levels):
    """all values of the decision variables x all values of the atoms; when that is too many, the atoms selected by
    the variable values (one child per operand node) take all values and the others two constant backgrounds"""
    alg = spec.alg
    dom = spec.atom_domain
    full = len(alg.atom_values) ** len(names) <= 4096
    for bvals in itertools.product(range(alg.branches), repeat=len(levels)):
        base = {"$levels": levels}
        for l, b in zip(levels, bvals):
            base[("v", l)] = b
        if full:
            for avals in itertools.product(*[dom(a) for a in names]):
                val = dict(base)
                val.update(zip(names, avals))
                yield val
            continue
        live = []
        for o in ops:
            if not isinstance(o, Edge):
                continue
            if o.node[0] == "S":
                k = o.node[1].children[base[("v", o.node[1].level)]]
                live += [a for a in atoms_of([k]) if a not in live]
            else:
                live += [a for a in atoms_of([o]) if a not in live]
        rest = [a for a in names if a not in live]
        for bg in (0, -1):
            for avals in itertools.product(*[dom(a) for a in live]):
                val = dict(base)
                val.update({a: dom(a)[bg] for a in rest})
                val.update(zip(live, avals))
                yield val


def levels_of(ops):
    out = set()

    def walk(e):
        if e.node[0] == "S":
            out.add(e.node[1].level)
            for k in e.node[1].children:
                walk(k)
    for o in _flatten(ops):
        if isinstance(o, Edge):
            walk(o)
    return sorted(out)


def judge(spec, ops, res, want_op, dom, nfun=None):
    alg = spec.alg
    problems = []
    names = atoms_of(ops)
    levels = sorted(set(levels_of(ops)) | set(getattr(spec, "always_levels", ())))
    want = want_op(ops) if callable(want_op) else Edge(("OP", want_op, tuple(ops)), None)
    # meaning
    bad = None
    B = None
    if alg is ALG_BOOL and not alg.zs and len(names) + len(levels) <= 17:
        B = BitCtx(names, levels)
        d = bden(spec, res, B) ^ bden(spec, want, B)
        if d:
            bad = B.decode((d & -d).bit_length() - 1)
    else:
        for val in valuations(spec, ops, names, levels):
            if not alg.same(den(spec, res, val), den(spec, want, val)):
                bad = {k: v for k, v in val.items() if k != "$levels"}
                break
    if bad:
        problems.append("does not denote %s, e.g. for %s" % (lab(want), bad))
    # order
    if res.node[0] == "MK":
        flv = [o.node[1].level for o in (ops if nfun is None else ops[:nfun]) if isinstance(o, Edge) and o.node[0] == "S"]
        flv += [x for x in getattr(spec, "always_levels", ()) if any(isinstance(o, int) and o == x for o in ops)]
        top = min(flv) if flv else None
        if not isinstance(res.node[1], int) or top is None or res.node[1] < top:
            problems.append("new node is labelled with level %r, above the top-most operand level %r" % (res.node[1], top))
        for k in res.node[2]:
            if isinstance(res.node[1], int) and contains_level_at_or_above(k, res.node[1]):
                problems.append("child %s of the new node still contains an operand node of the node's own level "
                                "(ordering invariant)" % lab(k))
    # cache
    if dom.adds:
        if len(dom.adds) != 1 or len(dom.gets) != 1:
            problems.append("%d cache lookups / %d insertions on one path" % (len(dom.gets), len(dom.adds)))
        else:
            g, a = dom.gets[0], dom.adds[0]
            gk = [x for x in g if not isinstance(x, Opaque)]
            ak = [x for x in a if not isinstance(x, Opaque)]
            if gk != ak[:len(gk)]:
                problems.append("cache entry is added under a key that differs from the looked-up key")
            stored = [x for x in ak[len(gk):] if isinstance(x, Edge)]
            kedges = [x for x in _flatten(gk) if isinstance(x, Edge)]
            if stored and len(kedges) == len(ops) and not (stored[-1] == res and kedges == list(ops)):
                # the entry must be valid on its own: the stored edge denotes the operation applied to the KEY operands
                # (which may be normalised versions of the call's operands, e.g. untagged or swapped)
                wantk = want_op(kedges) if callable(want_op) else Edge(("OP", want_op, tuple(kedges)), None)
                if B is not None:
                    okc = bden(spec, stored[-1], B) == bden(spec, wantk, B)
                else:
                    okc = all(alg.same(den(spec, stored[-1], val), den(spec, wantk, val))
                              for val in valuations(spec, ops, names, levels))
                if not okc:
                    problems.append("cache entry %s -> %s is not valid: the stored edge does not denote the operation "
                                    "on the key operands" % (", ".join(lab(k) for k in kedges), lab(stored[-1])))
    return problems


# ---- kinds ---------------------------------------------------------------------------------------------------
def _const_op(dom, consts):
    if len(consts) != 1 or isinstance(consts[0], str):
        raise Unrecognised("operator const argument %r" % (consts,))
    return dom.opnames.get(consts[0])


QOF = {"And": "Forall", "Or": "Exists", "Xor": "Unique", "Forall": "Forall", "Exists": "Exists", "Unique": "Unique"}


def _const_quant(dom, consts):
    if len(consts) != 1 or isinstance(consts[0], str):
        raise Unrecognised("quantifier const argument %r" % (consts,))
    q = QOF.get(dom.opnames.get(consts[0]))
    if q is None:
        raise Unrecognised("quantifier tag %r" % (consts[0],))
    return q


def _build_apply_quant(tag=None):
    def build(dom, consts, edges):
        if len(consts) != 2 or any(isinstance(c, str) for c in consts) or len(edges) != 3:
            raise Unrecognised("apply_quant instance %r" % (consts,))
        q = QOF.get(dom.opnames.get(consts[0]))
        op = {"UniqueNand": "Nand"}.get(dom.opnames.get(consts[1]), dom.opnames.get(consts[1]))
        if q is None or op not in BOOL_OPS:
            raise Unrecognised("apply_quant tags %r" % (consts,))
        return quant_of(q, op, edges, dom.default_tag())
    return ("build", build)


def quant_of(q, op, edges, tag=None):
    return Edge(("OP", q, (Edge(("OP", op, (edges[0], edges[1])), tag), edges[2])), tag)


def _build_subst(dom, consts, args):
    es = [a for a in args if isinstance(a, Edge)]
    tabs = [a for a in args if isinstance(a, (tuple, list))]
    if len(es) != 1 or len(tabs) != 1:
        raise Unrecognised("substitute call %r" % (args,))
    return Edge(("OP", "Subst", (es[0],), tuple(tabs[0])), dom.default_tag())


def subst_tables(var, atom_, swap12):
    """replacement tables indexed by level (index 0 unused): identity, opaque replacements, a swap of two variables
    (distinguishes simultaneous from sequential substitution), and a table that ends above the lowest level"""
    d = atom_("unused")
    return [("identity", (d, var(1), var(2), var(3))),
            ("opaque replacements", (d, atom_("r1"), atom_("r2"), atom_("r3"))),
            ("swap of the variables on levels 1 and 2", (d,) + swap12 + (var(3),)),
            ("level 2 replaced by the variable on level 3 and vice versa", (d, var(1), var(3), var(2))),
            ("short table", (d, atom_("r1"), var(2)))]


def cube(levels, true_edge, false_edge, tag=None, canon=None):
    """positive cube over `levels` (conjunction of the variables)"""
    rest = true_edge
    for l in sorted(levels, reverse=True):
        rest = snode("vars%d" % l, l, [rest, false_edge], tag)
    return rest


def lit_cube(lits, true_edge, false_edge, mk=None):
    """cube from {level: polarity}; simple kinds: positive literal = node(rest, false), negative = node(false, rest)"""
    rest = true_edge
    for l in sorted(lits, reverse=True):
        kids = [rest, false_edge] if lits[l] else [false_edge, rest]
        rest = mk(l, kids) if mk else snode("cube%d" % l, l, kids)
    return rest


def literal_sets():
    out = []
    for pol in itertools.product((None, True, False), repeat=3):
        d = {l + 1: p for l, p in enumerate(pol) if p is not None}
        if d and (FULL[0] or len(d) <= 2 or all(d.values()) or not any(d.values())):
            out.append(d)
    return out


VARSETS = [(1,), (2,), (3,), (1, 2), (1, 3), (2, 3), (1, 2, 3)]
FULL = [False]     # thorough tier: every tag combination and variable set; quick tier: a covering subset


def varsets():
    return VARSETS if FULL[0] else [(1,), (2,), (1, 2), (2, 3)]


def tag_combos(n):
    """complement-tag combinations for n tagged positions"""
    if FULL[0] or n <= 2:
        return list(itertools.product("pc", repeat=n))
    out = []
    for i in range(n):
        for base in ("p", "c"):
            t = [base] * n
            t[i] = "c" if base == "p" else "p"
            out.append(tuple(t))
    out += [tuple("p" * n), tuple("c" * n)]
    return sorted(set(out))


def bin_situations(mk_f, mk_g):
    """two inner operands in the three relative level configurations"""
    return [("same level", [mk_f(1), mk_g(1)]), ("f above g", [mk_f(1), mk_g(2)]), ("g above f", [mk_f(2), mk_g(1)])]


ITE_LEVELS = [(1, 1, 1), (1, 1, 2), (1, 2, 1), (2, 1, 1), (1, 2, 2), (2, 1, 2), (2, 2, 1),
              (1, 2, 3), (1, 3, 2), (2, 1, 3), (2, 3, 1), (3, 1, 2), (3, 2, 1)]


def ite_situations(mk_f, mk_g, mk_h, extra=()):
    out = [("levels %d/%d/%d" % ls, [mk_f(ls[0]), mk_g(ls[1]), mk_h(ls[2])]) for ls in ITE_LEVELS]
    out.extend(extra)
    return out


def const_situations(mks, consts):
    """every operand position replaced by every constant (the others stay inner nodes on level 1 / 2), plus all-constant
    tuples: shortcuts and identities that only hold for some constants live here"""
    out = []
    k = len(mks)
    for i in range(k):
        for cname, c in consts:
            for lv in ((1,) * k, tuple(1 + (j % 2) for j in range(k))):
                ops = [c if j == i else mks[j](lv[j]) for j in range(k)]
                out.append(("operand %d is %s (levels %s)" % (i, cname, "/".join(map(str, lv))), ops))
    if k == 2:
        for (an, a), (bn, b) in itertools.product(consts, repeat=2):
            out.append(("operands %s, %s" % (an, bn), [a, b]))
    if k == 3:
        for i, j in ((0, 1), (0, 2), (1, 2)):
            for (an, a), (bn, b) in itertools.product(consts, repeat=2):
                ops = [mks[x](1) for x in range(3)]
                ops[i], ops[j] = a, b
                out.append(("operands %d, %d are %s, %s" % (i, j, an, bn), ops))
    return out


def deep_node(name, level, mk=None, bottom=3):
    """operand whose children are themselves nodes on every modelled level below (so that what the step passes down
    -- a reduced variable set, a re-tagged cube -- is observable in the denotation of the recursive calls)"""
    mk = mk or (lambda nm, l, kids: snode(nm, l, kids))
    if level >= bottom:
        return mk(name, level, None)
    return mk(name, level, [deep_node(name + "t", level + 1, mk, bottom), deep_node(name + "e", min(level + 2, bottom), mk, bottom)])


def plain_mk(nm, l, kids):
    return snode(nm, l, kids if kids is not None else [atom(nm + "0"), atom(nm + "1")])


def plain_node(name, nkids=2):
    return lambda level: snode(name, level, [atom("%s%d" % (name, i)) for i in range(nkids)])


def run_bdd(ctx, F, rule):
    root = "oxidd_rules_bdd::simple"
    mod = root + "::apply_rec"
    tv = tables.BDD.term_values
    spec = Spec(tables.BDD, ALG_BOOL, mod, root, root + "::BDDOp", lambda e, val: tv[e.node[1].short])
    algos = {mod + "::apply_bin": _const_op, mod + "::apply_not": "Not", mod + "::apply_ite": "Ite"}
    n = 0
    ops = {int(v["discr"]): v["n"] for v in F.adts[spec.op_enum]["variants"]}
    for d, nm in sorted(ops.items()):
        if nm not in tables.BDD_SPEC:
            continue
        KB = [(v, Edge(("T", Enum(tables.BDD.terminal_enum + "::" + v)), None)) for v in ("True", "False")]
        n += check_step(ctx, F, rule, spec, mod + "::apply_bin", algos,
                        bin_situations(plain_node("f"), plain_node("g")) + const_situations([plain_node("f"), plain_node("g")], KB),
                        nm, consts={"OP": d}, label="bdd apply_bin<%s>" % nm)
    T = lambda v: Edge(("T", Enum(tables.BDD.terminal_enum + "::" + v)), None)
    var = lambda level: snode("x", level, [T("True"), T("False")])
    nvar = lambda level: snode("nx", level, [T("False"), T("True")])
    extra = [("f is a variable above g, h", [var(1), plain_node("g")(2), plain_node("h")(3)]),
             ("f is a negated variable above g, h", [nvar(1), plain_node("g")(2), plain_node("h")(2)]),
             ("g is a variable", [plain_node("f")(1), var(2), plain_node("h")(2)]),
             ("h is a variable on f's level", [plain_node("f")(1), plain_node("g")(2), var(1)])]
    extra += const_situations([plain_node("f"), plain_node("g"), plain_node("h")], [("true", T("True")), ("false", T("False"))])
    n += check_step(ctx, F, rule, spec, mod + "::apply_ite", algos,
                    ite_situations(plain_node("f"), plain_node("g"), plain_node("h"), extra), "Ite", label="bdd apply_ite")
    algos_q = dict(algos)
    algos_q[mod + "::quant"] = _const_quant
    qd = {v["n"]: int(v["discr"]) for v in F.adts[spec.op_enum]["variants"]}
    for q in ("And", "Or", "Xor"):
        sits = []
        for lf in (1, 2):
            for vs in VARSETS:
                sits.append(("f on level %d, vars %s" % (lf, vs), [plain_node("f")(lf), cube(vs, T("True"), T("False"))]))
                sits.append(("deep f on level %d, vars %s" % (lf, vs), [deep_node("f", lf, plain_mk), cube(vs, T("True"), T("False"))]))
        for tn in ("True", "False"):
            for vs in VARSETS[:4]:
                sits.append(("f is %s, vars %s" % (tn, vs), [T(tn), cube(vs, T("True"), T("False"))]))
        n += check_step(ctx, F, rule, spec, mod + "::quant", algos_q, sits, QOF[q], consts={"Q": qd[q]},
                        label="bdd quant<%s>" % QOF[q], nfun=1)
    algos_r = dict(algos)
    algos_r[mod + "::restrict"] = "Restrict"
    f_shapes = [("f on level 1", plain_node("f")(1)), ("f on level 2", plain_node("f")(2)),
                ("deep f on level 1", deep_node("f", 1, plain_mk)), ("deep f on level 2", deep_node("f", 2, plain_mk)),
                ("f on level 1 with inner children", snode("f", 1, [plain_node("g")(2), plain_node("h")(3)]))]
    sits = [("%s, cube %s" % (d, lits), [f, lit_cube(lits, T("True"), T("False"))])
            for d, f in f_shapes for lits in literal_sets()]
    n += check_step(ctx, F, rule, spec, mod + "::restrict", algos_r, sits, "Restrict", label="bdd restrict", nfun=1)
    sits = [("f on level 1", [plain_node("f")(1)]), ("deep f", [deep_node("f", 1, plain_mk)]),
            ("f is true", [T("True")]), ("f is false", [T("False")]), ("f is a variable", [var(2)])]
    n += check_step(ctx, F, rule, spec, mod + "::apply_not", algos, sits, "Not", label="bdd apply_not")
    algos_s = dict(algos)
    algos_s[mod + "::substitute"] = ("build", _build_subst)
    sits = []
    for dt, tab in subst_tables(var, atom, (var(2), var(1))):
        for d, f in f_shapes + [("f on level 3", plain_node("f")(3))]:
            sits.append(("%s, %s" % (d, dt), [f, tab, 77]))
    n += check_step(ctx, F, rule, spec, mod + "::substitute", algos_s, sits,
                    lambda ops3: Edge(("OP", "Subst", (ops3[0],), tuple(ops3[1])), None), label="bdd substitute", nfun=1)
    algos_q[mod + "::apply_quant"] = _build_apply_quant()
    for q in ("And", "Or", "Xor"):
        for opn in sorted(tables.BDD_SPEC):
            sits = []
            for d, ops2 in bin_situations(plain_node("f"), plain_node("g")):
                for vs in VARSETS:
                    sits.append(("%s, vars %s" % (d, vs), ops2 + [cube(vs, T("True"), T("False"))]))
            for d, ops2 in bin_situations(lambda l: deep_node("f", l, plain_mk), lambda l: deep_node("g", l, plain_mk)):
                for vs in varsets():
                    sits.append(("deep %s, vars %s" % (d, vs), ops2 + [cube(vs, T("True"), T("False"))]))
            for lf, lg in ((2, 2), (2, 3), (3, 2)):
                for vs in ((1,), (1, 2), (1, 3)):
                    sits.append(("operands on levels %d/%d below the first variable, vars %s" % (lf, lg, vs),
                                 [plain_node("f")(lf), plain_node("g")(lg), cube(vs, T("True"), T("False"))]))
            for tn in ("True", "False"):
                for vs in ((1,), (2,), (1, 2)):
                    sits.append(("g is %s, vars %s" % (tn, vs), [plain_node("f")(1), T(tn), cube(vs, T("True"), T("False"))]))
                    sits.append(("f is %s, vars %s" % (tn, vs), [T(tn), plain_node("g")(2), cube(vs, T("True"), T("False"))]))
            n += check_step(ctx, F, rule, spec, mod + "::apply_quant", algos_q, sits,
                            (lambda q, opn: lambda ops3: quant_of(QOF[q], opn, ops3))(q, opn),
                            consts={"Q": qd[q], "OP": qd[opn]}, label="bdd apply_quant<%s,%s>" % (QOF[q], opn), nfun=2)
    return n


def bcdd_operand(name, tag, etag):
    T = {"p": Enum(ETAG + "::None"), "c": Enum(ETAG + "::Complemented")}
    return lambda level: snode(name, level, [atom(name + "0", T["p"]), atom(name + "1", T[etag])], T[tag])


def run_bcdd(ctx, F, rule):
    root = "oxidd_rules_bdd::complement_edge"
    mod = root + "::apply_rec"
    spec = Spec(ereduce.BCDD_KIND, ALG_BOOL, mod, root, root + "::BCDDOp", lambda e, val: 1, bcdd=True)
    algos = {mod + "::apply_bin": _const_op, mod + "::apply_and": "And", mod + "::apply_ite": "Ite"}
    ops = {v["n"]: int(v["discr"]) for v in F.adts[spec.op_enum]["variants"]}
    n = 0
    for nm in ("And", "Xor"):
        sits = []
        for ft, fe, gt, ge in itertools.product("pc", repeat=4):
            for d, ops2 in bin_situations(bcdd_operand("f", ft, fe), bcdd_operand("g", gt, ge)):
                sits.append(("%s tags f=%s/%s g=%s/%s" % (d, ft, fe, gt, ge), ops2))
        n += check_step(ctx, F, rule, spec, mod + "::apply_bin", algos, sits, nm, consts={"OP": ops[nm]},
                        label="bcdd apply_bin<%s>" % nm)
    sits = []
    for tags in tag_combos(6):
        ft, fe, gt, ge, ht, he = tags
        for d, ops2 in ite_situations(bcdd_operand("f", ft, fe), bcdd_operand("g", gt, ge), bcdd_operand("h", ht, he)):
            sits.append(("%s tags %s" % (d, "".join(tags)), ops2))
    P, C = Enum(ETAG + "::None"), Enum(ETAG + "::Complemented")
    TT = lambda tag: Edge(("T", Enum(root + "::BCDDTerminal")), tag)
    for vt in (P, C):
        var = lambda level: snode("x", level, [TT(P), TT(C)], vt)
        for gt, ht in itertools.product("pc", repeat=2):
            nm = "variable" if vt is P else "negated variable"
            sits.append(("f is a %s above g, h (%s%s)" % (nm, gt, ht), [var(1), bcdd_operand("g", gt, "p")(2), bcdd_operand("h", ht, "c")(3)]))
            sits.append(("f is a %s above g = h level (%s%s)" % (nm, gt, ht), [var(1), bcdd_operand("g", gt, "c")(2), bcdd_operand("h", ht, "p")(2)]))
            sits.append(("g is a %s (%s%s)" % (nm, gt, ht), [bcdd_operand("f", gt, "p")(1), var(2), bcdd_operand("h", ht, "p")(2)]))
            sits.append(("h is a %s (%s%s)" % (nm, gt, ht), [bcdd_operand("f", gt, "c")(1), bcdd_operand("g", ht, "p")(2), var(1)]))
    n += check_step(ctx, F, rule, spec, mod + "::apply_ite", algos, sits, "Ite", label="bcdd apply_ite")
    # restrict: cubes in canonical complement-edge form
    def flip(e):
        return Edge(e.node, C if e.tag == P else P)

    def mk(level, kids):
        t, e = kids
        if t.tag == C:
            return snode("cube%d" % level, level, [flip(t), flip(e)], C)
        return snode("cube%d" % level, level, [t, e], P)
    def bcdd_mk(ft, fe):
        def m(nm, l, kids):
            if kids is None:
                kids = [atom(nm + "0", P), atom(nm + "1", C if fe == "c" else P)]
            else:
                kids = [kids[0] if kids[0].tag == P else flip(kids[0]), kids[1]]
            # tag pattern: the operand edge carries `ft`; inner then-edges are regular, inner else-edges alternate
            top = len(nm) == 1
            tag = (C if ft == "c" else P) if top else (C if (fe == "c") == (nm[-1] == "e") else P)
            if nm[-1] == "t":
                tag = P
            return snode(nm, l, kids, tag)
        return m
    algos_r = dict(algos)
    algos_r[mod + "::restrict"] = "Restrict"
    sits = []
    for ft, fe in itertools.product("pc", repeat=2):
        shapes = [("f on level 1", bcdd_operand("f", ft, fe)(1)), ("f on level 2", bcdd_operand("f", ft, fe)(2)),
                  ("deep f on level 1", deep_node("f", 1, bcdd_mk(ft, fe))), ("deep f on level 2", deep_node("f", 2, bcdd_mk(ft, fe))),
                  ("f on level 1 with inner children",
                   snode("f", 1, [bcdd_operand("g", "p", fe)(2), bcdd_operand("h", fe, "p")(3)], P if ft == "p" else C))]
        for d, f in shapes:
            for lits in literal_sets():
                sits.append(("%s (%s%s), cube %s" % (d, ft, fe, lits), [f, lit_cube(lits, TT(P), TT(C), mk)]))
    n += check_step(ctx, F, rule, spec, mod + "::restrict", algos_r, sits, "Restrict", label="bcdd restrict", nfun=1)
    algos_s = dict(algos)
    algos_s[mod + "::substitute"] = ("build", _build_subst)
    bvar = lambda level: snode("x", level, [TT(P), TT(C)], P)
    sits = []
    for dt, tab in subst_tables(bvar, lambda nm: atom(nm, P), (bvar(2), flip(bvar(1)))):
        for ft, fe in itertools.product("pc", repeat=2):
            for d, f in (("f on level 1", bcdd_operand("f", ft, fe)(1)), ("f on level 2", bcdd_operand("f", ft, fe)(2)),
                         ("f on level 3", bcdd_operand("f", ft, fe)(3)), ("deep f on level 1", deep_node("f", 1, bcdd_mk(ft, fe)))):
                sits.append(("%s (%s%s), %s" % (d, ft, fe, dt), [f, tab, 77]))
    n += check_step(ctx, F, rule, spec, mod + "::substitute", algos_s, sits,
                    lambda ops3: Edge(("OP", "Subst", (ops3[0],), tuple(ops3[1])), P), label="bcdd substitute", nfun=1)
    # quantification
    algos_q = dict(algos)
    algos_q[mod + "::quant"] = _const_quant
    algos_q[mod + "::apply_quant"] = _build_apply_quant()
    for q in ("Forall", "Exists", "Unique"):
        sits = []
        for ft, fe in itertools.product("pc", repeat=2):
            for lf in (1, 2):
                for vs in VARSETS:
                    sits.append(("f on level %d (%s%s), vars %s" % (lf, ft, fe, vs),
                                 [bcdd_operand("f", ft, fe)(lf), cube(vs, TT(P), TT(C), P)]))
                    sits.append(("deep f on level %d (%s%s), vars %s" % (lf, ft, fe, vs),
                                 [deep_node("f", lf, bcdd_mk(ft, fe)), cube(vs, TT(P), TT(C), P)]))
        for tg in (P, C):
            for vs in VARSETS[:4]:
                sits.append(("f is the terminal (%s), vars %s" % (tg.short, vs), [TT(tg), cube(vs, TT(P), TT(C), P)]))
        n += check_step(ctx, F, rule, spec, mod + "::quant", algos_q, sits, q, consts={"Q": ops[q]},
                        label="bcdd quant<%s>" % q, nfun=1)
        for opn in ("And", "Xor", "UniqueNand"):
            if q != "Unique" and opn == "UniqueNand":
                continue
            sits = []
            for ft, fe, gt, ge in tag_combos(4):
                for d, ops2 in bin_situations(bcdd_operand("f", ft, fe), bcdd_operand("g", gt, ge)):
                    for vs in varsets():
                        sits.append(("%s (%s%s%s%s), vars %s" % (d, ft, fe, gt, ge, vs), ops2 + [cube(vs, TT(P), TT(C), P)]))
            for ft, gt in itertools.product("pc", repeat=2):
                for d, ops2 in bin_situations(lambda l: deep_node("f", l, bcdd_mk(ft, gt)), lambda l: deep_node("g", l, bcdd_mk(gt, ft))):
                    for vs in varsets():
                        sits.append(("deep %s (%s%s), vars %s" % (d, ft, gt, vs), ops2 + [cube(vs, TT(P), TT(C), P)]))
            for lf, lg in ((2, 2), (2, 3), (3, 2)):
                for vs in ((1,), (1, 2), (1, 3)):
                    for ft, gt in (("p", "p"), ("c", "p"), ("p", "c")):
                        sits.append(("operands on levels %d/%d below the first variable (%s%s), vars %s" % (lf, lg, ft, gt, vs),
                                     [bcdd_operand("f", ft, "c")(lf), bcdd_operand("g", gt, "p")(lg), cube(vs, TT(P), TT(C), P)]))
            for tg in (P, C):
                for vs in ((1,), (2,), (1, 2)):
                    sits.append(("g is the terminal (%s), vars %s" % (tg.short, vs),
                                 [bcdd_operand("f", "p", "c")(1), TT(tg), cube(vs, TT(P), TT(C), P)]))
                    sits.append(("f is the terminal (%s), vars %s" % (tg.short, vs),
                                 [TT(tg), bcdd_operand("g", "c", "p")(2), cube(vs, TT(P), TT(C), P)]))
            sem = {"UniqueNand": "Nand"}.get(opn, opn)
            n += check_step(ctx, F, rule, spec, mod + "::apply_quant", algos_q, sits,
                            (lambda q, sem: lambda ops3: quant_of(q, sem, ops3, P))(q, sem),
                            consts={"Q": ops[q], "OP": ops[opn]}, label="bcdd apply_quant<%s,%s>" % (q, opn), nfun=2)
    return n


def run_zbdd(ctx, F, rule):
    root = "oxidd_rules_zbdd"
    mod = root + "::apply_rec"
    tv = tables.ZBDD.term_values
    spec = Spec(tables.ZBDD, ALG_ZBDD, mod, root, root + "::ZBDDOp", lambda e, val: tv[e.node[1].short])
    names = {"apply_union": "Union", "apply_intsec": "Intsec", "apply_diff": "Diff", "apply_symm_diff": "SymmDiff"}
    algos = {mod + "::" + k: v for k, v in names.items()}
    base = Edge(("T", Enum(tables.ZBDD.terminal_enum + "::Base")), None)
    n = 0
    for fn, nm in names.items():
        sits = bin_situations(plain_node("f"), plain_node("g"))
        sits.append(("g is Base", [plain_node("f")(1), base]))
        sits.append(("f is Base", [base, plain_node("g")(1)]))
        KZ = [("Base", base), ("Empty", Edge(("T", Enum(tables.ZBDD.terminal_enum + "::Empty")), None))]
        sits += const_situations([plain_node("f"), plain_node("g")], KZ)
        n += check_step(ctx, F, rule, spec, mod + "::" + fn, algos, sits, nm, label="zbdd " + fn)
    # if-then-else on the Boolean-function view (characteristic functions)
    algos_i = dict(algos)
    algos_i[mod + "::apply_ite"] = "Ite"
    extra = [("g is Base", [plain_node("f")(1), base, plain_node("h")(2)]),
             ("h is Base", [plain_node("f")(2), plain_node("g")(1), base]),
             ("f is Base", [base, plain_node("g")(1), plain_node("h")(1)]),
             ("g, h are Base / node", [plain_node("f")(1), base, plain_node("h")(1)])]
    n += check_step(ctx, F, rule, spec, mod + "::apply_ite", algos_i,
                    ite_situations(plain_node("f"), plain_node("g"), plain_node("h"), extra), "Ite", label="zbdd apply_ite")
    # restrict on the Boolean-function view
    def zcube(lits, lvl):
        rest = base
        for l in (3, 2, 1):
            if l < lvl:
                break
            pol = lits.get(l)
            if pol is True:
                rest = snode("c%d" % l, l, [rest, empty])
            elif pol is None:
                rest = snode("d%d" % l, l, [rest, rest])
        return rest

    def build_zrestrict(dom, consts, args):
        es = [a for a in args if isinstance(a, Edge)]
        ints = [a for a in args if isinstance(a, int) and not isinstance(a, bool)]
        if len(es) != 2 or len(ints) != 1:
            raise Unrecognised("restrict call %r" % (args,))
        return Edge(("OP", "ZRestrict", (es[0], es[1]), ints[0]), None)

    def build_zbase(dom, consts, args):
        es = [a for a in args if isinstance(a, Edge)]
        ints = [a for a in args if isinstance(a, int) and not isinstance(a, bool)]
        if len(es) != 1 or len(ints) != 1:
            raise Unrecognised("restrict_base call %r" % (args,))
        return Edge(("OP", "ZRestrict", (base, es[0]), ints[0]), None)
    empty = Edge(("T", Enum(tables.ZBDD.terminal_enum + "::Empty")), None)
    algos_r = dict(algos)
    algos_r[mod + "::restrict"] = ("build", build_zrestrict)
    algos_r[mod + "::restrict::restrict_base"] = ("build", build_zbase)
    spec_r = Spec(tables.ZBDD, ALG_ZBDD, mod, root, root + "::ZBDDOp", lambda e, val: tv[e.node[1].short])
    spec_r.always_levels = (1, 2, 3)
    sits = []
    for lvl in (1, 2):
        shapes = [("f on level %d" % lf, plain_node("f")(lf)) for lf in (1, 2, 3) if lf >= lvl]
        shapes += [("deep f on level %d" % lf, deep_node("f", lf, plain_mk)) for lf in (1, 2) if lf >= lvl]
        shapes += [("f is Base", base), ("f is Empty", empty)]
        for pol in itertools.product((None, True, False), repeat=3):
            lits = {l + 1: p for l, p in enumerate(pol)}
            if not FULL[0] and sum(1 for p in pol if p is not None) > 2:
                continue
            for d, f in shapes:
                sits.append(("%s, cube %s from level %d" % (d, {k: v for k, v in lits.items() if k >= lvl}, lvl), [f, zcube(lits, lvl), lvl]))
    n += check_step(ctx, F, rule, spec_r, mod + "::restrict", algos_r, sits,
                    lambda ops3: Edge(("OP", "ZRestrict", (ops3[0], ops3[1]), ops3[2]), None), label="zbdd restrict", nfun=1)
    # restrict_base itself: the remaining cube below the function's last node
    sits = []
    for lvl in (1, 2, 3):
        for pol in itertools.product((None, True, False), repeat=3):
            lits = {l + 1: p for l, p in enumerate(pol)}
            sits.append(("cube %s from level %d" % ({k: v for k, v in lits.items() if k >= lvl}, lvl), [zcube(lits, lvl), lvl]))
    n += check_step(ctx, F, rule, spec_r, mod + "::restrict::restrict_base", algos_r, sits,
                    lambda ops2: Edge(("OP", "ZRestrict", (base, ops2[0]), ops2[1]), None), label="zbdd restrict_base", nfun=1)
    # subset0 / subset1 / change
    SUB = {0: "Subset0", 1: "Subset1", -1: "Change"}

    def build_subset(dom, consts, args):
        if len(consts) != 1 or isinstance(consts[0], str):
            raise Unrecognised("subset VAL %r" % (consts,))
        v = consts[0]
        v = v - 256 if v > 127 else v
        es = [a for a in args if isinstance(a, Edge)]
        ints = [a for a in args if isinstance(a, int)]
        if v not in SUB or len(es) != 1 or len(ints) != 2:
            raise Unrecognised("subset instance VAL=%r args=%r" % (v, args))
        return Edge(("OP", SUB[v], (es[0],), ints[1], ints[0]), None)
    algos_s = dict(algos)
    algos_s[mod + "::subset"] = ("build", build_subset)
    spec = Spec(tables.ZBDD, ALG_ZBDD, mod, root, root + "::ZBDDOp", lambda e, val: tv[e.node[1].short])
    spec.always_levels = (1, 2, 3)
    empty = Edge(("T", Enum(tables.ZBDD.terminal_enum + "::Empty")), None)
    for val, nm in sorted(SUB.items()):
        sits = []
        for vl in (1, 2, 3):
            shapes = [("f on level %d" % lf, plain_node("f")(lf)) for lf in (1, 2, 3)]
            shapes += [("deep f on level %d" % lf, deep_node("f", lf, plain_mk)) for lf in (1, 2)]
            shapes += [("f is Base", base)]
            for d, f in shapes:
                sits.append(("%s, variable on level %d" % (d, vl), [f, 40 + vl, vl]))
        n += check_step(ctx, F, rule, spec, mod + "::subset", algos_s, sits,
                        (lambda nm: lambda ops3: Edge(("OP", nm, (ops3[0],), ops3[2], ops3[1]), None))(nm),
                        consts={"VAL": val}, label="zbdd subset<%s>" % nm, nfun=1)
    return n


def run_mtbdd(ctx, F, rule):
    root = "oxidd_rules_mtbdd"
    mod = root + "::apply_rec"
    spec = Spec(tables.MTBDD, ALG_NUM, mod, root, root + "::MTBDDOp", lambda e, val: tables.num_eval(e.node[1], val))
    algos = {mod + "::apply_bin": _const_op}
    ops = {int(v["discr"]): v["n"] for v in F.adts[spec.op_enum]["variants"]}
    c1 = Edge(("T", ("sym", "c1")), None)
    n = 0
    for d, nm in sorted(ops.items()):
        if nm not in tables.MTBDD_SPEC:
            continue
        sits = bin_situations(plain_node("f"), plain_node("g"))
        sits.append(("g is a terminal", [plain_node("f")(1), c1]))
        sits.append(("f is a terminal", [c1, plain_node("g")(1)]))
        for cname, c in (("0", Edge(("T", ("const", 0)), None)), ("1", Edge(("T", ("const", 1)), None)),
                         ("NaN", Edge(("T", tables.NAN), None))):
            sits.append(("g is the constant %s" % cname, [plain_node("f")(1), c]))
            sits.append(("f is the constant %s" % cname, [c, plain_node("g")(1)]))
        n += check_step(ctx, F, rule, spec, mod + "::apply_bin", algos, sits, nm, consts={"OP": d},
                        label="mtbdd apply_bin<%s>" % nm)
    spec2 = Spec(tables.MTBDD, ALG_NUM, mod, root, root + "::MTBDDOp", lambda e, val: tables.num_eval(e.node[1], val),
                 atom_domain=lambda name: [0.0, 1.0] if name.startswith("f") else ALG_NUM.atom_values)
    algos2 = dict(algos)
    algos2[mod + "::apply_ite"] = "Ite"
    c2 = Edge(("T", ("sym", "c2")), None)
    extra = [("g is a terminal", [plain_node("f")(1), c1, plain_node("h")(1)]),
             ("h is a terminal", [plain_node("f")(2), plain_node("g")(1), c2]),
             ("g, h are terminals", [plain_node("f")(1), c1, c2])]
    # constant branches (0, 1, NaN): identities such as ite(f, g, 0) = f * g hold for finite values only
    k0, k1, knan = Edge(("T", ("const", 0)), None), Edge(("T", ("const", 1)), None), Edge(("T", tables.NAN), None)
    for cname, c in (("0", k0), ("1", k1), ("NaN", knan)):
        extra.append(("h is the constant %s" % cname, [plain_node("f")(1), plain_node("g")(1), c]))
        extra.append(("g is the constant %s" % cname, [plain_node("f")(1), c, plain_node("h")(1)]))
        extra.append(("h is the constant %s, g below f" % cname, [plain_node("f")(1), plain_node("g")(2), c]))
    extra.append(("g = 1, h = 0", [plain_node("f")(1), k1, k0]))
    extra.append(("g = 0, h = 1", [plain_node("f")(1), k0, k1]))
    n += check_step(ctx, F, rule, spec2, mod + "::apply_ite", algos2,
                    ite_situations(plain_node("f"), plain_node("g"), plain_node("h"), extra), "Ite", label="mtbdd apply_ite")
    algos_r = dict(algos)
    algos_r[mod + "::restrict"] = "Restrict"
    one, zero = Edge(("T", ("const", 1)), None), Edge(("T", ("const", 0)), None)
    f_shapes = [("f on level 1", plain_node("f")(1)), ("f on level 2", plain_node("f")(2)),
                ("deep f on level 1", deep_node("f", 1, plain_mk)), ("deep f on level 2", deep_node("f", 2, plain_mk))]
    sits = [("%s, cube %s" % (d, lits), [f, lit_cube(lits, one, zero)]) for d, f in f_shapes for lits in literal_sets()]
    n += check_step(ctx, F, rule, spec, mod + "::restrict", algos_r, sits, "Restrict", label="mtbdd restrict", nfun=1)
    return n


def run_tdd(ctx, F, rule):
    root = "oxidd_rules_tdd"
    mod = root + "::apply_rec"
    tv = tables.TDD.term_values
    spec = Spec(tables.TDD, ALG_TVL, mod, root, root + "::TDDOp", lambda e, val: tv[e.node[1].short])
    algos = {mod + "::apply_bin": _const_op, mod + "::apply_not": "Not", mod + "::apply_ite_rec": "Ite"}
    ops = {int(v["discr"]): v["n"] for v in F.adts[spec.op_enum]["variants"]}
    n = 0
    for d, nm in sorted(ops.items()):
        if nm not in tables.TDD_SPEC:
            continue
        KT = [(v, Edge(("T", Enum(tables.TDD.terminal_enum + "::" + v)), None)) for v in ("True", "Unknown", "False")]
        n += check_step(ctx, F, rule, spec, mod + "::apply_bin", algos,
                        bin_situations(plain_node("f", 3), plain_node("g", 3)) +
                        const_situations([plain_node("f", 3), plain_node("g", 3)], KT), nm, consts={"OP": d},
                        label="tdd apply_bin<%s>" % nm)
    U = Edge(("T", Enum(tables.TDD.terminal_enum + "::Unknown")), None)
    f3, g3, h3 = plain_node("f", 3), plain_node("g", 3), plain_node("h", 3)
    extra = [("f is unknown", [U, g3(1), h3(2)]), ("g is unknown", [f3(1), U, h3(1)]), ("h is unknown", [f3(2), g3(1), U]),
             ("f, g are unknown", [U, U, h3(1)]), ("f, h are unknown", [U, g3(1), U])]
    extra += const_situations([f3, g3, h3], [(v, Edge(("T", Enum(tables.TDD.terminal_enum + "::" + v)), None))
                                             for v in ("True", "Unknown", "False")])
    n += check_step(ctx, F, rule, spec, mod + "::apply_ite_rec", algos, ite_situations(f3, g3, h3, extra), "Ite",
                    label="tdd apply_ite_rec")
    TT3 = lambda v: Edge(("T", Enum(tables.TDD.terminal_enum + "::" + v)), None)
    sits = [("f on level 1", [f3(1)]), ("f is true", [TT3("True")]), ("f is unknown", [U]), ("f is false", [TT3("False")]),
            ("f with terminal children", [snode("f", 2, [TT3("True"), U, TT3("False")])])]
    n += check_step(ctx, F, rule, spec, mod + "::apply_not", algos, sits, "Not", label="tdd apply_not")
    return n


RUNNERS = {"bdd": run_bdd, "bcdd": run_bcdd, "zbdd": run_zbdd, "mtbdd": run_mtbdd, "tdd": run_tdd}


def run(ctx, F, rule="E-TABLE.step", kinds=("bdd", "bcdd", "zbdd", "mtbdd", "tdd"), parts=ALL_PARTS):
    FULL[0] = getattr(ctx, "tier", "quick") == "thorough"
    PARTS[0] = tuple(parts)
    n = 0
    for k in kinds:
        n += RUNNERS[k](ctx, F, rule)
    return n


def check_zbdd_restrict_base(ctx, F, rule="E-TABLE.step.zbase"):
    """`restrict_base` (ZBDD `restrict` once `f` has reached `Base`) turns the remaining cube into the family in which
    every cube variable is don't-care.  The cube skips the levels of its negative literals, and *each* skipped level
    needs its own don't-care node: the node creation sits in a loop over `level..node_level`.  (The step rule above
    treats `restrict_base` as a builtin because of this loop.)  From MIR: every node-creating call of `restrict_base`
    lies on a cycle whose iterator runs over an integer range."""
    fids = [f for f in F.mir if f.startswith("oxidd_rules_zbdd::apply_rec::restrict::restrict_base") and "{closure" not in f]
    if not ctx.anchor(rule, "oxidd_rules_zbdd::apply_rec::restrict::restrict_base", len(fids) == 1):
        return 0
    from lib import cfg
    fid = fids[0]
    m = F.mir[fid]
    B = cfg.Body(m)
    creators = [i for i, t in B.calls() if re.search(r"LevelView::get_or_insert$|::reduce1$|::reduce$|::reduce_borrowed$",
                                                       (cfg.callee_decl(t) or "") + "|" + (cfg.callee_name(t) or ""))]
    def recv_ty(t):
        a = (t.get("a") or [{}])[0]
        l = a.get("mv", a.get("cp"))
        return m["locals"][l].get("ty", "") if isinstance(l, int) else ""
    range_next = [i for i, t in B.calls() if (cfg.callee_name(t) or "").endswith("::next") and "Range<" in recv_ty(t)]
    ok = bool(creators) and bool(range_next) and all(
        B.can_reach(c, c) and any(B.can_reach(c, r) and B.can_reach(r, c) for r in range_next) for c in creators)
    ctx.ob(rule, rule + ":restrict_base", ok,
           "%s (%s): %s" % (F.nice(fid), F.where(fid),
                            "don't-care nodes are created in a loop over the skipped levels" if ok else
                            "a don't-care node is created outside a loop over the skipped levels (%d creating call(s), %d range "
                            "iteration(s)): when the cube skips several adjacent levels only one of them becomes don't-care"
                            % (len(creators), len(range_next))))
    return 1
