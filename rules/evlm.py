"""E-VLM: the variable <-> level maps of the two managers.

`VarLevelMap` keeps `to_level` and `to_var` as mutually inverse permutations of 0..n; every unit-correct use of
`var_to_level` / `level_to_var` elsewhere relies on that.  Its four small functions are interpreted from HIR on
concrete vectors (both managers have their own copy of the file):

  extend     appends the identity: after extend(k) on vectors of length n the entries n..n+k-1 of both vectors are
             their own index, earlier entries are untouched (new variables go below all existing levels);
  lookup     var_to_level(v) reads to_level[v], level_to_var(l) reads to_var[l];
  swap       swap_levels(l1, l2) on a non-identity permutation leaves the vectors mutually inverse with exactly the two
             levels exchanged (and nothing changed for l1 == l2);
  siblings   the two copies of the file are the same program (normalised HIR).
"""
import json
import re

import tables
from lib.interp import Edge, Enum, Interp, Opaque, StructVal, Unrecognised, enumerate_runs

RULE = "E-VLM"


class ACell:
    def __init__(self, v):
        self.v = v

    def __repr__(self):
        return "%r" % (self.v,)


class VlmDomain(tables.DDDomain):
    def __init__(self, F):
        super().__init__(F, tables.BDD)

    def field(self, it, v, n):
        if isinstance(v, dict) and n in v:
            return v[n]
        return None

    def call(self, it, name, f, args_e, env, e):
        n = f.get("n", "")
        if re.search(r"Atomic\w*::new$|Atomic<\w+>::new$", n):
            (a,) = [it.ev(x, env) for x in args_e]
            return ACell(a)
        return super().call(it, name, f, args_e, env, e)

    def call_value(self, it, fv, args):
        if isinstance(fv, tuple) and fv and fv[0] == "fnref" and re.search(r"Atomic.*::new$", fv[1].get("n", "")):
            return ACell(args[0])
        if isinstance(fv, tuple) and fv and fv[0] == "closure":
            _, ce, cenv = fv
            env = dict(cenv)
            for p, a in zip(ce.get("params", []), args):
                it.match(p, a, env)
            return it.ev(ce["body"], env)
        raise Unrecognised("call of %r" % (fv,))

    def method(self, it, m, e, env):
        name = m.rsplit("::", 1)[-1]
        recv = it.recv(e, env)
        if isinstance(recv, list):
            if name == "len":
                return len(recv)
            if name in ("reserve", "reserve_exact"):
                it.args(e, env)
                return ()
            if name == "extend":
                (src,) = it.args(e, env)
                if isinstance(src, tuple) and src and src[0] == "mapped":
                    _, rng, fn = src
                    for i in rng:
                        recv.append(self.call_value(it, fn, [i]))
                    return ()
                raise Unrecognised("extend with %r" % (src,))
            if name == "push":
                (x,) = it.args(e, env)
                recv.append(x)
                return ()
        if isinstance(recv, StructVal) and recv.path.endswith("Range") and name == "map":
            (fn,) = it.args(e, env)
            st, en = recv.fields.get("start"), recv.fields.get("end")
            if isinstance(st, int) and isinstance(en, int):
                return ("mapped", range(st, en), fn)
        if isinstance(recv, ACell):
            if name == "load":
                it.args(e, env)
                return recv.v
            if name == "store":
                args = it.args(e, env)
                recv.v = args[0]
                return ()
        if isinstance(recv, dict) and m.split("::")[0] in ("oxidd_manager_index", "oxidd_manager_pointer"):
            # another method of the map itself
            args = it.args(e, env)
            return it.call_fn(m, [recv] + args) if m in self.F.hir else self._by_name(it, m, recv, args)
        return super().method(it, m, e, env)

    def _by_name(self, it, m, recv, args):
        name = m.rsplit("::", 1)[-1]
        crate = m.split("::")[0]
        fid = next((f for f in self.F.hir if f.startswith(crate + "::util::var_level_map::") and f.endswith("::" + name)), None)
        if fid is None:
            raise Unrecognised("method %s" % m)
        return it.call_fn(fid, [recv] + args)

    def path_const(self, it, e):
        return None

    def const(self, it, e):
        if (e.get("n") or "").endswith("Ordering::Relaxed"):
            return Enum("Relaxed")
        return super().const(it, e)


def _vals(cells):
    return [c.v if isinstance(c, ACell) else c for c in cells]


def _norm(h):
    def walk(x):
        if isinstance(x, dict):
            return {k: walk(v) for k, v in x.items() if k not in ("ln", "lid", "exp", "lbl", "to", "ga", "rty", "hty", "ty")}
        if isinstance(x, list):
            return [walk(v) for v in x]
        return x
    s = json.dumps(walk({"params": h.get("params"), "body": h.get("body")}), sort_keys=True)
    s = s.replace("oxidd_manager_pointer", "MGR").replace("oxidd_manager_index", "MGR")
    return re.sub(r"\{impl#\d+\}", "{impl}", s)


def run(ctx, F, rule=RULE):
    n = 0
    per_crate = {}
    for crate in ("oxidd_manager_index", "oxidd_manager_pointer"):
        base = crate + "::util::var_level_map::"
        fns = {f.rsplit("::", 1)[-1]: f for f in F.hir if f.startswith(base) and "{impl#" in f}
        if not ctx.anchor(rule, "%s VarLevelMap (extend, var_to_level, level_to_var, swap_levels)" % crate,
                          all(k in fns for k in ("extend", "var_to_level", "level_to_var", "swap_levels"))):
            continue
        per_crate[crate] = fns
        fails = []

        def mk(oracle):
            return Interp(F, VlmDomain(F), oracle)

        def state(tl, tv):
            return {"to_level": [ACell(x) for x in tl], "to_var": [ACell(x) for x in tv]}
        # extend
        for tl, tv in (([], []), ([1, 0], [1, 0]), ([2, 0, 1], [1, 2, 0])):
            for k in (0, 1, 3):
                st = state(tl, tv)
                for trace, (status, val) in enumerate_runs(mk, lambda it: it.call_fn(fns["extend"], [st, k])):
                    n += 1
                    nl = len(tl)
                    want_l, want_v = tl + list(range(nl, nl + k)), tv + list(range(nl, nl + k))
                    if status != "ok" or _vals(st["to_level"]) != want_l or _vals(st["to_var"]) != want_v:
                        fails.append("extend(%d) on %d variables: %s; to_level = %r, to_var = %r, expected %r / %r (new variables "
                                     "map to the new bottom levels, identity)" % (k, nl, status, _vals(st["to_level"]),
                                                                                 _vals(st["to_var"]), want_l, want_v))
        # lookup
        st = state([2, 0, 1], [1, 2, 0])
        for v in range(3):
            for fn_, vec in (("var_to_level", "to_level"), ("level_to_var", "to_var")):
                for trace, (status, val) in enumerate_runs(mk, lambda it: it.call_fn(fns[fn_], [st, v])):
                    n += 1
                    if status != "ok" or val != _vals(st[vec])[v]:
                        fails.append("%s(%d) yields %s %r, expected %s[%d] = %r" % (fn_, v, status, val, vec, v, _vals(st[vec])[v]))
        # swap
        for l1, l2 in ((0, 1), (1, 2), (2, 0), (1, 1)):
            tl, tv = [2, 0, 1], [1, 2, 0]
            st = state(tl, tv)
            for trace, (status, val) in enumerate_runs(mk, lambda it: it.call_fn(fns["swap_levels"], [st, l1, l2])):
                n += 1
                want_v = list(tv)
                want_v[l1], want_v[l2] = tv[l2], tv[l1]
                want_l = [want_v.index(v) for v in range(3)]
                if status != "ok" or _vals(st["to_var"]) != want_v or _vals(st["to_level"]) != want_l:
                    fails.append("swap_levels(%d, %d): %s; to_var = %r, to_level = %r, expected %r / %r (mutually inverse, the two "
                                 "levels exchanged)" % (l1, l2, status, _vals(st["to_var"]), _vals(st["to_level"]), want_v, want_l))
        ctx.ob(rule, "%s:%s" % (rule, crate), not fails,
               "%s VarLevelMap (%s): %s" % (crate, F.where(fns["extend"]), "%d situation(s) wrong; first: %s" %
                                            (len(fails), " || ".join(fails[:2])) if fails else
                                            "extend appends the identity, lookups read their own vector, swap keeps the maps inverse"))
    if len(per_crate) == 2:
        a, b = per_crate["oxidd_manager_index"], per_crate["oxidd_manager_pointer"]
        diff = sorted(k for k in set(a) | set(b) if k not in a or k not in b or _norm(F.hir[a[k]]) != _norm(F.hir[b[k]]))
        n += 1
        ctx.ob(rule + ".siblings", rule + ".siblings", not diff,
               "VarLevelMap of the index-based and the pointer-based manager: %s" %
               ("the same program" if not diff else "function(s) %s differ between the two copies" % ", ".join(diff)))
    return n
