"""E-CACHE.substid: substitution IDs are never handed out twice.

`substitute` memoises its results in the apply cache under (Substitute, f, substitution id).  "Never served for a
different substitution" therefore rests on `new_substitution_id` never returning the same number twice in one
process.  From its MIR:
  counter   the ID comes from exactly one atomic read-modify-write on a static counter;
  width     the counter is wider than the ID type (so that it cannot wrap around into the ID range again once the
            IDs are exhausted -- a counter of the ID's own width wraps after the one failing call), or the update is
            a checked one (fetch_update / compare_exchange loop);
  guard     the fetched value is compared with a bound that fits the ID type and the out-of-range branch diverges
            before the value is narrowed.
and, for the holders of an ID: every `Substitution::id` implementation in oxidd-core returns the stored field, and
the field is written from `new_substitution_id()` only.
"""
import re

from lib import cfg

FN = "oxidd_core::util::substitution::new_substitution_id"
WIDTH = {"u8": 8, "u16": 16, "u32": 32, "u64": 64, "u128": 128, "usize": 64, "i32": 32, "i64": 64, "isize": 64}


def run(ctx, F, rule="E-CACHE.substid"):
    if not ctx.anchor(rule, FN, FN in F.mir):
        return 0
    m = F.mir[FN]
    out_w = WIDTH.get(F.fns[FN].get("output"))
    rmw = []
    for bi, b in enumerate(m["blocks"]):
        t = b.get("t") or {}
        if t.get("k") == "call":
            d = (t.get("f") or {}).get("def") or ""
            mm = re.match(r"std::sync::atomic::Atomic(?:::<)?(\w+)>?::(fetch_\w+|compare_exchange\w*|swap|store)", d) or \
                re.match(r"std::sync::atomic::Atomic([UI]\w+)::(fetch_\w+|compare_exchange\w*|swap|store)", d)
            if mm:
                rmw.append((bi, mm.group(1).lower().replace("atomic", ""), mm.group(2), t))
    where = F.where(FN)
    ok = len(rmw) == 1
    ctx.ob(rule + ".counter", rule + ".counter:" + FN, ok,
           "%s (%s): %d atomic operations on the ID counter (expected exactly one read-modify-write)" % (FN, where, len(rmw)))
    if not ok:
        return 1
    bi, ty, op, t = rmw[0]
    w = WIDTH.get(ty)
    checked = op in ("fetch_update",) or op.startswith("compare_exchange")
    ok = out_w is not None and w is not None and (w > out_w or checked)
    ctx.ob(rule + ".width", rule + ".width:" + FN, ok,
           "%s (%s): the ID counter is an Atomic<%s> updated with %s and the ID type has %s bits: %s" %
           (FN, where, ty, op, out_w,
            "cannot wrap into the ID range" if ok else
            "a counter that is not wider than the ID wraps around after the IDs are exhausted and hands out used IDs again"))
    # guard: a comparison of (a copy of) the fetched value against a constant <= 2^out_w - 1 controls a diverging branch
    dest = t.get("d")
    body = cfg.Body(m)
    copies = {dest}
    changed = True
    while changed:
        changed = False
        for b in m["blocks"]:
            for s in b["s"]:
                rv = s.get("rv") or {}
                if rv.get("k") == "use":
                    o = rv["op"]
                    src = o.get("cp", o.get("mv"))
                    if src in copies and isinstance(s.get("lhs"), int) and s["lhs"] not in copies:
                        copies.add(s["lhs"])
                        changed = True
    guard = False
    for gi, b in enumerate(m["blocks"]):
        consts = {}
        cmps = {}
        for s in b["s"]:
            rv = s.get("rv") or {}
            if rv.get("k") in ("use", "cast") and "int" in (rv.get("op") or {}):
                consts[s["lhs"]] = int(rv["op"]["int"])
            if rv.get("k") == "bin" and rv.get("o") in ("Gt", "Ge", "Lt", "Le", "Eq", "Ne"):
                cmps[s["lhs"]] = rv
        t2 = b.get("t") or {}
        if t2.get("k") != "switch":
            continue
        d = t2["d"].get("mv", t2["d"].get("cp"))
        rv = cmps.get(d)
        if not rv:
            continue

        def val(o):
            if "int" in o:
                return int(o["int"])
            return consts.get(o.get("mv", o.get("cp")))

        def loc(o):
            return o.get("mv", o.get("cp"))
        a, bb = rv["a"], rv["b"]
        bound = val(bb) if loc(a) in copies else val(a) if loc(bb) in copies else None
        if bound is None or out_w is None or bound > 2 ** out_w - 1:
            continue
        if rv["o"] not in ("Gt", "Ge", "Lt", "Le"):
            continue     # an equality test lets every later (wrapped) value through
        succs = [x[1] for x in t2["t"]] + [t2["o"]]
        rets = body.exits(("return",))
        diverging = [sblk for sblk in succs if not any(r in body.reachable_from(sblk) for r in rets)]
        if diverging and len(diverging) < len(succs):
            guard = True
    ctx.ob(rule + ".guard", rule + ".guard:" + FN, guard or checked,
           "%s (%s): %s" % (FN, where, "an ordered comparison of the fetched counter value with a bound inside the ID range guards "
                            "a diverging branch" if guard else
                            "no ordered range check of the fetched counter value diverges before the value is returned"))
    n = 3
    # holders: Substitution::id impls in oxidd-core return a field; that field is initialised from new_substitution_id
    for fid, r in sorted(F.fns.items()):
        imp = r.get("impl") or {}
        if fid.startswith("oxidd_core::") and imp.get("trait", "").startswith("oxidd_core::util::substitution::Substitution") \
                and fid.endswith("::id") and fid in F.mir:
            mm = F.mir[fid]
            calls = [((b.get("t") or {}).get("f") or {}).get("def", "") for b in mm["blocks"] if (b.get("t") or {}).get("k") == "call"]
            fresh = any(c.endswith("new_substitution_id") for c in calls)
            okh = not fresh
            ctx.ob(rule + ".holder", rule + ".holder:" + F.nice(fid), okh,
                   "%s (%s): %s" % (F.nice(fid), F.where(fid), "returns the stored ID" if okh else
                                    "draws a fresh ID on every call (the cache key would change between recursion steps)"))
            n += 1
    return n
