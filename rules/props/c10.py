"""C10 MTBDD arithmetic — terminal/base cases of every operator (E-TABLE) ..."""
import substrate
import edm
import elin
import ector
import ecof
import eeval
import ecache
import ewrap
import kinds
import i64table
import eterm
import efreelist
import tables
import estep
import ewho

LEVEL = "E-TABLE over mtbdd::terminal_bin"


def run(ctx):
    F = ctx.facts("ws")
    ctx.explain("E-TABLE: oxidd_rules_mtbdd::terminal_bin is interpreted from its type-checked HIR for each of the 6 "
                "operators and every pair of abstract operands {NaN, 0, 1, c1, c2, x, y} (c: other terminal, x/y: "
                "inner nodes) and every outcome of `f > g` / partial_cmp; the returned Done/Binary term is compared "
                "with the operator's pointwise specification on a grid of extended reals with NaN.")
    n = tables.check_binary_table(ctx, F, "E-TABLE.mtbdd", "oxidd_rules_mtbdd::terminal_bin", tables.MTBDD,
                                  "oxidd_rules_mtbdd::MTBDDOp", "oxidd_rules_mtbdd::Operation")
    ctx.floor("E-TABLE.mtbdd", "abstract situations evaluated", n, 6 * 49)
    ctx.explain("E-WRAP: the PseudoBooleanFunction impl methods add/sub/mul/div/min/max/ite/restrict_edge reach "
                "apply_bin with the operator tag and operand order they are named for.")
    kinds.wrappers(ctx, F, "mtbdd", [kinds.PBF], 8)
    ctx.explain("E-CACHE: in this kind's algorithm functions the apply-cache key of every insertion equals the key "
                "of the lookup, the memoised value is the returned value, hit and miss paths agree, tags are disjoint.")
    n = ecache.run(ctx, F, crates=("oxidd_rules_mtbdd::",))
    ctx.floor("E-CACHE", "cache-using algorithm functions", n, 3)
    ecache.check_hit_equals_miss(ctx, F, crates=("oxidd_rules_mtbdd::",))
    ctx.explain("E-TABLE.i64: Add/Sub/Mul/Div of the extended-integer terminal type are interpreted over "
                "{NaN, -inf, +inf, Num(neg|zero|pos)}^2; checked_* answers None exactly for the sign pairs that can "
                "overflow and the saturation arm must yield the infinity of the exact result's sign; non-finite cases "
                "follow IEEE semantics.")
    n = i64table.run(ctx, F)
    ctx.explain("E-NUM.f64: F64 terminals are built from constants or through the normalising From<f64> only.")
    i64table.check_f64_constructors(ctx, F)
    ctx.explain("E-NUM.terminals: F64::from normalises both NaN signs and -0.0; F64 eq / hash are the value's bits; partial_cmp treats NaN "
                "as equal to NaN and unordered otherwise; the text forms (AsciiDisplay, Display) of NaN, -inf, +inf and numbers are read "
                "back by ParseTagged::parse as the same value, for F64 and I64 (interpreted, f64 bit patterns exact).")
    ctx.explain("E-FREELIST.term.link: the dynamic terminal store's free list, interpreted: gc's sweep closure links each dead slot in front "
                "of the local head (4 -> 2 -> 7, no self-loop), the retain predicate keeps exactly the terminals whose count is not 1, "
                "get_edge pops the head for a new value (count 2, id entered in the table) and answers OutOfMemory exactly at the "
                "end of the store.")
    ntl = efreelist.check_terminal_links(ctx, F)
    ctx.floor("E-FREELIST.term.link", "interpreted terminal free-list situations", ntl, 8)
    nt = eterm.run(ctx, F)
    ctx.floor("E-NUM.terminals", "interpreted terminal situations", nt, 81)
    ctx.floor("E-TABLE.i64", "abstract cases of the I64 operators", n, 140)
    ctx.explain("E-TABLE.step: the recursive (Shannon expansion) step is interpreted on structured abstract operands -- inner nodes "
                "with opaque or nested children in every relative level configuration (and every complement-tag "
                "combination for BCDDs); recursive calls are builtins with the meaning of the callee, reduce yields a node. "
                "The returned edge must denote the operation for all values of atoms and decision variables, the new "
                "node must respect the variable order, and a cache entry must be valid for its key.")
    n = estep.run(ctx, F, kinds=("mtbdd",))
    ctx.floor("E-TABLE.step", "situations of the recursive step (apply_bin, apply_ite)", n, 50)
    ctx.explain("E-WHO: MTBDD terminals are created on demand and freed by the manager's collection only (inside its "
                "pre_gc/post_gc bracket): the apply cache holds uncounted terminal edges, so a terminal sweep from anywhere "
                "else lets a cached result name a reused slot.")
    ewho.run(ctx, F)
    ctx.explain("E-EVAL: eval_edge is interpreted in two single steps -- one iteration of the argument loop (the entry of "
                "var_to_level(var) ends up holding an encoding of the value that does not depend on its previous content: "
                "the value given last counts; other entries untouched; ZBDD: the counter of true variables is kept exact) and "
                "one call of `inner` (recurses once into the child for the stored value -- true: first, false: last, "
                "unknown: middle -- with the same table; complement flag / counter handed down correctly; terminals "
                "yield their value), plus the initial call and the multi-threaded delegation.")
    n = eeval.run(ctx, F, only=("mtbdd",))
    ctx.floor("E-EVAL", "interpreted eval situations", n, 6)
    ctx.explain("E-TABLE.cof: DiagramRules::cofactors (driven through its iterator's own next) and DiagramRules::cofactor (override "
                "or trait default) are interpreted on a node whose children carry every tag combination, for every incoming "
                "tag: the i-th result is the i-th child with the incoming tag applied (the builtin the step rules assume); "
                "cofactors_node / cofactors_edge hand out cofactor 0, 1[, 2] of the edge's own tag and node, None for terminals.")
    n = ecof.run(ctx, F, only=("mtbdd",))
    ctx.floor("E-TABLE.cof", "interpreted cofactor situations", n, 3)
    ctx.explain("E-TABLE.ctor: f_edge / t_edge / u_edge / constant_edge / var_edge / not_var_edge of the function types (ST and "
                "MT) are interpreted and must build the constant terminal resp. a node created at var_to_level(var) whose "
                "children are (true, false) / (1, 0) / (true, unknown, false) in that order (BCDD: (T, !T) behind an untagged "
                "edge; ZBDD: (tautology(level + 1), Empty) as the first node of its chain); the default not_var is not(var).")
    n = ector.run(ctx, F, only=("mtbdd",))
    ctx.floor("E-TABLE.ctor", "interpreted constructor bodies", n, 3)
    ctx.explain("E-LIN.mint: inventory of the places in the two manager crates that build an owned Edge value out of a raw id / "
                "pointer (invisible to the drop-based rule): the copying sites (clone_edge*, DynamicTerminalManager::get_edge, "
                "the dynamic terminal iterator) have a reference-count increment or a fresh count on every path to the "
                "creation; the remaining sites are the reviewed raw constructors and ownership transfers; a new site is reported.")
    n = elin.check_mint(ctx, F)
    ctx.floor("E-LIN.mint", "edge-creating functions inventoried", n, 22)
    ctx.explain("E-CACHE.dm: the results of the recursion are memoised in the direct-mapped apply cache, which holds uncounted "
                "edges: it compares and hashes all key parts, and every entry is cleared (under its lock) in pre_gc / before a "
                "reordering, so that no entry survives the collection of one of its nodes and is served for a recycled id.")
    edm.run(ctx, F)
    substrate.run(ctx, F, dm=False)
    ctx.not_decided = "non-overflow arithmetic of the terminal types, Div rounding, float behaviour"
