"""C15 DDDMP: writer/reader tables"""
import ecount
import ebin
import ehdr
import eterm
import edddmp
import etaint
import elin
import eunits

LEVEL = "E-DDDMP + E-UNITS + E-LIN on oxidd-dump"


def run(ctx):
    F = ctx.facts("ws")
    ctx.explain("E-DDDMP: the exporter's header keys (string literals) are all accepted by the reader's key table; "
                "the name sanitisers' byte predicates are evaluated for all 256 bytes and must cover the reader's "
                "separator bytes (memchr2 arguments, line terminators) and agree with each other; the byte-escape "
                "tables of write_escaped/read_unescape and the bit layout of the binary node code vs the reader's "
                "shifts/masks are extracted and checked to be mutually inverse (all 128 code combinations). "
                "E-UNITS: the exporter/importer never mix variable numbers and level numbers (.orderedvarnames, .ids, "
                ".permids are permutations of each other). E-LIN: the importer releases every edge on its error paths.")
    edddmp.run(ctx, F)
    ctx.explain("E-DDDMP.taint: MIR taint analysis of dddmp::import: a number decoded from the file reaches no index, "
                "subtraction or allocation size without a dominating comparison or a checked / clamping operation. "
                "E-DDDMP.deadcheck: no overflow check relies on checked_shl with a constant amount.")
    n = etaint.run(ctx, F)
    ctx.floor("E-DDDMP.taint", "index / subtraction / allocation sinks examined", n, 25)
    etaint.check_prefix_direction(ctx, F)
    n = etaint.check_dead_overflow_checks(ctx, F)
    ctx.floor("E-DDDMP.deadcheck", "oxidd-dump bodies scanned", n, 100)
    ctx.explain("E-DDDMP.strict: every sortedness validation of an id list in the importer rejects equal neighbours "
                "(duplicate ids are malformed input that later code would panic on).")
    n = edddmp.check_strict_sortedness(ctx, F)
    ctx.floor("E-DDDMP.strict", "sortedness predicates in dddmp::import", n, 2)
    nfn, _ = eunits.run(ctx, F, crates=("oxidd_dump",))
    ctx.explain("E-UNITS.sized: a fixed-size table (vec![x; n]) that is addressed by a level / variable number of the manager "
                "is sized by the manager's number of levels / variables -- not by a count taken from the file (the two "
                "differ when the importing manager has more variables than the dump).")
    ctx.floor("E-UNITS.sized", "level/variable-addressed tables of oxidd-dump", ctx.rule_counts.get("E-UNITS.sized", [0])[0], 2)
    ctx.floor("E-UNITS", "oxidd-dump bodies analysed", nfn, 60)
    st = elin.run(ctx, F, crates=("oxidd_dump",), skip_guard_table=True)
    ctx.floor("E-LIN", "oxidd-dump bodies analysed", st["bodies"], 100)
    ctx.explain("E-DDDMP.fields: what the exporter interpolates under `.ids` is a variable number and under `.permids` a level "
                "number (unit analysis incl. loop counters typed by their uses; the importer reads them that way). "
                "E-DDDMP.numbering: levels are numbered bottom-up (children get smaller node ids than parents, as the importer "
                "demands) and the support-variable index is pre-decremented from nsuppvars (range 0..nsuppvars).")
    nf = edddmp.check_header_units(ctx, F)
    ctx.floor("E-DDDMP.fields", "numbers interpolated under .ids / .permids", nf, 2)
    edddmp.check_numbering(ctx, F)
    ctx.explain("E-DDDMP.order: the importer rejects a node whose level is >= the level of one of its children (import_ascii, import_bin).")
    edddmp.check_level_order_checks(ctx, F)
    ctx.explain("E-DDDMP.bincodes (+ .vars): the writer's choice of binary id / variable codes and the reader's decoding are "
                "interpreted over a small exhaustive domain: the reader inverts the writer (child ids for node ids 2..9, "
                "variable indices 0..5 with every topmost-child index, terminal children); the three payload numbers are "
                "written exactly for AbsoluteID / RelativeID in the order variable, then, else; binary mode only for binary "
                "single-terminal diagrams unless ASCII is requested. E-DDDMP.ascii: variable loops range over 0..nvars, terminal "
                "lines end in ` 0 0`, the node counter starts at 0, complemented edges are written as negative ids. "
                "(None of this is exercised by the repository's tests: there is no export/import round-trip test.)")
    nb = ebin.run(ctx, F)
    nb += ebin.check_var_codes(ctx, F)
    ctx.floor("E-DDDMP.bincodes", "writer/reader agreement cases", nb, 60)
    ebin.check_ascii_writer(ctx, F)
    ctx.explain("E-DDDMP.reader: header length validations use `!=` (equal lengths pass), roots are complemented exactly for negative ids, the missing-`.end` error sits on the `!reads_expected` edge.")
    ebin.check_reader_structure(ctx, F)
    ctx.explain("E-DDDMP.header: everything `DumpHeader::load` does after its reading loop is interpreted on model headers: 12 "
                "well-formed ones (unnamed, each name list and their combinations, a constant function, full support, the last "
                "node as a plain / complemented root) are accepted with support_var_order = support variables by level and the "
                "names by variable number; 22 malformed ones (.ids not strictly ascending or not below .nvars, .permids out of "
                "range or duplicate, every length mismatch, contradicting name lists, root id 0 or beyond .nnodes) yield Err, "
                "never a panic.")
    ctx.explain("E-DDDMP.noderec: the ASCII reader rejects a node line exactly for children.len() != ARITY, recognises terminals by "
                "children.contains(&0), and raises the child-id error exactly for child >= node_id before nodes[child - 1] is read; "
                "the binary reader asserts ARITY == 2 and its idx() (interpreted) rejects id 0, ids >= node_id and offsets beyond node_id.")
    ctx.explain("E-DDDMP.strictmode: every io::Error the exporter creates for a name it sanitises lies on the true edge of a test of "
                "ExportSettings::strict and is unreachable from that test's false edge (the default export sanitises silently).")
    ctx.explain("E-DDDMP.placeholder: the counter of leading underscores for invented variable names, interpreted over model names, always "
                "exceeds the number of leading underscores of every existing name (an invented `_x1` can never equal a real name).")
    edddmp.check_placeholder_underscores(ctx, F)
    ctx.explain("E-DDDMP.callers: every caller of dddmp::import in the workspace (CLI, C and Python bindings) that derives the variable "
                "mapping from the header reads support_var_order() (support variables by level position), never support_vars().")
    edddmp.check_import_callers(ctx, F)
    ctx.explain("E-DDDMP.ctrlflag: write_replacing_control (interpreted on model strings) writes the name with control characters replaced "
                "by spaces and returns true exactly when it replaced one (the flag behind the strict-mode error for diagram names).")
    edddmp.check_replacing_flag(ctx, F)
    ns = edddmp.check_strict_mode(ctx, F)
    ctx.floor("E-DDDMP.strictmode", "error creations in the exporter", ns, 4)
    nr = ebin.check_node_records(ctx, F)
    ctx.floor("E-DDDMP.noderec", "node-record checks", nr, 25)
    ctx.explain("E-NUM.terminals: the terminal text the exporter writes (AsciiDisplay of F64 / I64: NaN, -INF / -Inf, +INF / +Inf, numbers) "
                "is read back by ParseTagged::parse as the same value.")
    eterm.run(ctx, F)
    nh = ehdr.run(ctx, F)
    ctx.floor("E-DDDMP.header", "model headers interpreted", nh, 34)
    ctx.explain("E-COUNT.underflow: no unsigned local that starts at the literal 0 is only ever decremented (it would underflow at its "
                "first update); detector checked against a built-in positive example on every run.")
    ecount.run(ctx, F, ('oxidd_dump',))
    ctx.not_decided = "round-trip equality of diagrams, totality on malformed input (value reasoning about indices and counts)"
