"""C04 Quantification, restriction, apply-and-quantify, substitution: wiring and dualisation tables"""
import substrate
import edm
import esubst
import etaut
import eprep
import ecache
import eunits
import ewrap
import kinds
import estep

LEVEL = "E-WRAP over the quantification wrappers and dispatch tables"


def run(ctx):
    F = ctx.facts("ws")
    ctx.explain("E-WRAP: forall/exists/unique_edge and apply_forall/exists/unique_edge of BDD and BCDD (sequential "
                "and multi-threaded) are interpreted through their dispatch tables (apply_quant_dispatch, "
                "apply_quant_unique_dispatch: the BCDD dualisation table mapping 8 operators onto and/xor/UniqueNand) "
                "for each of the 8 BooleanOperator values, with quant::<Q>/apply_quant::<Q,OP> as builtins; the "
                "resulting term is compared with `Q v.(lhs OP rhs)` over all valuations of the operands as functions "
                "of the quantified variable. restrict_edge passes (root, vars) in order.")
    kinds.wrappers(ctx, F, "bdd", [kinds.BFQ, kinds.BF], 30)
    kinds.wrappers(ctx, F, "bcdd", [kinds.BFQ, kinds.BF], 30)
    ctx.explain("E-UNITS: no variable number meets a level number (both are u32) in the rules crate(s).")
    nfn, _ = eunits.run(ctx, F, crates=("oxidd_rules_bdd",))
    ctx.floor("E-UNITS", "function bodies analysed", nfn, 100)
    ctx.explain("E-CACHE: in this kind's algorithm functions the apply-cache key of every insertion equals the key "
                "of the lookup, the memoised value is the returned value, hit and miss paths agree, tags are disjoint.")
    n = ecache.run(ctx, F, crates=("oxidd_rules_bdd::",))
    ctx.floor("E-CACHE", "cache-using algorithm functions", n, 10)
    ecache.check_hit_equals_miss(ctx, F, crates=("oxidd_rules_bdd::",))
    ctx.explain("E-TABLE.step: the recursive (Shannon expansion) step is interpreted on structured abstract operands -- inner nodes "
                "with opaque or nested children in every relative level configuration (and every complement-tag "
                "combination for BCDDs); recursive calls are builtins with the meaning of the callee, reduce yields a node. "
                "The returned edge must denote the operation for all values of atoms and decision variables, the new "
                "node must respect the variable order, and a cache entry must be valid for its key.")
    ctx.explain("E-TABLE.step (quant, apply_quant, restrict): variable sets are positive cubes over up to three modelled "
                "levels, restrict cubes carry both polarities (in canonical complement-edge form for BCDDs); the specification "
                "folds and/or/xor over the cofactors of the listed variables resp. fixes the cube's literals.")
    n = estep.run(ctx, F, kinds=("bdd", "bcdd"), parts=("quant", "restrict", "subst"))
    n += estep.run(ctx, F, kinds=("zbdd", "mtbdd"), parts=("restrict",))
    estep.check_zbdd_restrict_base(ctx, F)
    etaut.check_restrict_base_loop(ctx, F)
    ctx.floor("E-TABLE.step", "situations of the recursive step (quant, apply_quant, restrict)", n, 2500)
    ctx.explain("E-TABLE.prep: substitute_prepare (BDD, BCDD) builds the table the substitution step reads: one iteration of its fill "
                "loop stores Some(r) at var_to_level(v) (growing the table with None as needed, other entries untouched); one "
                "iteration of its completion loop, which enumerates the table in order, clones a mapped entry and builds the "
                "variable's own function node(level; true, false) for an unmapped one.")
    n = eprep.run(ctx, F)
    ctx.floor("E-TABLE.prep", "interpreted loop iterations", n, 14)
    ctx.explain("E-CACHE.substid: substitute memoises under (Substitute, f, substitution id): new_substitution_id hands every "
                "number out once (one atomic read-modify-write on a counter wider than the id, range-checked), and the "
                "Substitution holders return the id they were given.")
    esubst.run(ctx, F)
    ctx.explain("E-CACHE.dm: the results of the recursion are memoised in the direct-mapped apply cache, which holds uncounted "
                "edges: it compares and hashes all key parts, and every entry is cleared (under its lock) in pre_gc / before a "
                "reordering, so that no entry survives the collection of one of its nodes and is served for a recycled id.")
    edm.run(ctx, F)
    substrate.run(ctx, F, dm=False)
    ctx.not_decided = "the induction over the diagram, behaviour under memory exhaustion"
