"""C11 TDD three-valued logic"""
import substrate
import edm
import ector
import ecof
import eeval
import eshort
import ecache
import ewrap
import kinds
import tables
import estep
import eunits

LEVEL = "E-TABLE over tdd::terminal_bin"


def run(ctx):
    F = ctx.facts("ws")
    ctx.explain("E-TABLE: oxidd_rules_tdd::terminal_bin is interpreted from its type-checked HIR for each of the 8 "
                "binary operators and all pairs of abstract operands {F, U, T, x, y}; the returned Done/Not/Binary "
                "term is compared with Kleene's strong tables (and/or/nand/nor) and Lukasiewicz's tables "
                "(imp, equiv; xor = not equiv; imp_strict(a,b) = not imp(b,a)) over all three-valued valuations of x, y.")
    n = tables.check_binary_table(ctx, F, "E-TABLE.tdd", "oxidd_rules_tdd::terminal_bin", tables.TDD,
                                  "oxidd_rules_tdd::TDDOp", "oxidd_rules_tdd::Operation")
    ctx.floor("E-TABLE.tdd", "abstract situations evaluated", n, 8 * 25)
    ctx.explain("E-WRAP: the TVLFunction impl methods reach apply_bin/apply_not/apply_ite_rec with the operator tag "
                "and operand order they are named for; TVLFunction default methods (f, t, u, var, not, and, ...) "
                "forward to the same-named _edge method.")
    kinds.wrappers(ctx, F, "tdd", [kinds.TVL], 10)
    n = ewrap.check_trait_defaults(ctx, F)
    ctx.floor("E-WRAP.default", "default methods with an _edge sibling", n, 60)
    ctx.explain("E-CACHE: in this kind's algorithm functions the apply-cache key of every insertion equals the key "
                "of the lookup, the memoised value is the returned value, hit and miss paths agree, tags are disjoint.")
    n = ecache.run(ctx, F, crates=("oxidd_rules_tdd::",))
    ctx.floor("E-CACHE", "cache-using algorithm functions", n, 3)
    ecache.check_hit_equals_miss(ctx, F, crates=("oxidd_rules_tdd::",))
    ctx.explain("E-TABLE.shortcut: the shortcut prefix (equal/constant operands, delegations) of apply_ite and of the "
                "ZBDD set operations is interpreted for all operand tuples over {constants, x, y, z} up to the cache "
                "lookup; every shortcut taken must denote the operation.")
    n = eshort.run(ctx, F, kinds=("tdd",))
    ctx.floor("E-TABLE.shortcut", "shortcut situations interpreted", n, 20)
    ctx.explain("E-TABLE.step: the recursive (Shannon expansion) step is interpreted on structured abstract operands -- inner nodes "
                "with opaque or nested children in every relative level configuration (and every complement-tag "
                "combination for BCDDs); recursive calls are builtins with the meaning of the callee, reduce yields a node. "
                "The returned edge must denote the operation for all values of atoms and decision variables, the new "
                "node must respect the variable order, and a cache entry must be valid for its key.")
    n = estep.run(ctx, F, kinds=("tdd",))
    ctx.floor("E-TABLE.step", "situations of the recursive step (apply_bin, apply_ite_rec)", n, 50)
    ctx.explain("E-UNITS: no variable number meets a level number in the TDD rules crate.")
    nfn, _ = eunits.run(ctx, F, crates=("oxidd_rules_tdd",))
    ctx.floor("E-UNITS", "function bodies analysed", nfn, 25)
    ctx.explain("E-EVAL: eval_edge is interpreted in two single steps -- one iteration of the argument loop (the entry of "
                "var_to_level(var) ends up holding an encoding of the value that does not depend on its previous content: "
                "the value given last counts; other entries untouched; ZBDD: the counter of true variables is kept exact) and "
                "one call of `inner` (recurses once into the child for the stored value -- true: first, false: last, "
                "unknown: middle -- with the same table; complement flag / counter handed down correctly; terminals "
                "yield their value), plus the initial call and the multi-threaded delegation.")
    n = eeval.run(ctx, F, only=("tdd",))
    ctx.floor("E-EVAL", "interpreted eval situations", n, 15)
    ctx.explain("E-TABLE.cof: DiagramRules::cofactors (driven through its iterator's own next) and DiagramRules::cofactor (override "
                "or trait default) are interpreted on a node whose children carry every tag combination, for every incoming "
                "tag: the i-th result is the i-th child with the incoming tag applied (the builtin the step rules assume); "
                "cofactors_node / cofactors_edge hand out cofactor 0, 1[, 2] of the edge's own tag and node, None for terminals.")
    n = ecof.run(ctx, F, only=("tdd",))
    ctx.floor("E-TABLE.cof", "interpreted cofactor situations", n, 4)
    n = ecof.check_accessors(ctx, F)
    ctx.floor("E-TABLE.cof.access", "accessor situations", n, 3)
    ctx.explain("E-TABLE.ctor: f_edge / t_edge / u_edge / constant_edge / var_edge / not_var_edge of the function types (ST and "
                "MT) are interpreted and must build the constant terminal resp. a node created at var_to_level(var) whose "
                "children are (true, false) / (1, 0) / (true, unknown, false) in that order (BCDD: (T, !T) behind an untagged "
                "edge; ZBDD: (tautology(level + 1), Empty) as the first node of its chain); the default not_var is not(var).")
    n = ector.run(ctx, F, only=("tdd",))
    ctx.floor("E-TABLE.ctor", "interpreted constructor bodies", n, 4)
    ctx.explain("E-CACHE.dm: the results of the recursion are memoised in the direct-mapped apply cache, which holds uncounted "
                "edges: it compares and hashes all key parts, and every entry is cleared (under its lock) in pre_gc / before a "
                "reordering, so that no entry survives the collection of one of its nodes and is served for a recycled id.")
    edm.run(ctx, F)
    substrate.run(ctx, F, dm=False)
    ctx.not_decided = "the value eval assumes for variables missing from its arguments"
