"""C06 Apply cache transparency"""
import ecache
import edm
import ekey
import eevent
import tables
import esubst
import ewho

LEVEL = "E-CACHE + E-CACHE.dm + E-EVENT + E-TABLE tags"


def run(ctx):
    F = ctx.facts("ws")
    ctx.explain("E-CACHE: for every algorithm function of the five rules crates that uses the apply cache, the key of "
                "each insertion equals the key of the lookup (operator, edge operands, numeric operands), the memoised "
                "value is the returned value, computed tags (from_apply_quant, quantifier->tag, VAL->tag) are injective "
                "and name-consistent for all const-parameter values, and the tag sets of the algorithms of one crate "
                "are pairwise disjoint; the value returned on a hit is the same function of the cached value as on "
                "the miss path (complement-tag re-application in BCDD restrict). E-TABLE: the tag travelling through terminal_bin's Binary(op, ..) denotes the "
                "operator being computed (bdd, tdd, mtbdd). E-CACHE.dm: the direct-mapped cache compares all four key "
                "parts on a hit, hashes all key parts, uses try_lock on the operation path, and pre_gc clears and keeps "
                "every entry locked until post_gc. E-EVENT: gc/reorder/add_vars* of both managers emit the "
                "invalidation events in order on every path, and the manager-data structs forward every event to "
                "every field.")
    n = ecache.run(ctx, F)
    ctx.floor("E-CACHE", "cache-using algorithm functions", n, 24)
    n = ecache.check_hit_equals_miss(ctx, F)
    ctx.floor("E-CACHE.hit", "functions with a hit path and a miss path", n, 24)
    edm.run(ctx, F)
    ctx.explain("E-CACHE.key: EntryGuard::set / get / clear / is_occupied and CountPair::new are interpreted on a model entry: get returns "
                "the stored values exactly for the stored operator, operand lists (position by position, both kinds) and value counts, "
                "None for every single-component deviation, for a fresh entry, after clear() and for a key replaced by a second set().")
    nk = ekey.run(ctx, F)
    ctx.floor("E-CACHE.key", "interpreted get / set sessions", nk, 15)
    for kind, fid, op, opn in (
            (tables.BDD, "oxidd_rules_bdd::simple::terminal_bin", "oxidd_rules_bdd::simple::BDDOp", "oxidd_rules_bdd::simple::Operation"),
            (tables.TDD, "oxidd_rules_tdd::terminal_bin", "oxidd_rules_tdd::TDDOp", "oxidd_rules_tdd::Operation"),
            (tables.MTBDD, "oxidd_rules_mtbdd::terminal_bin", "oxidd_rules_mtbdd::MTBDDOp", "oxidd_rules_mtbdd::Operation")):
        tables.check_binary_table(ctx, F, "E-TABLE." + kind.name, fid, kind, op, opn)
    eevent.check_manager(ctx, F, "oxidd_manager_index")
    eevent.check_manager(ctx, F, "oxidd_manager_pointer")
    n = eevent.check_manager_data_forwarding(ctx, F)
    ctx.floor("E-EVENT.forward", "forwarded events of manager-data structs", n, 40)
    ctx.explain("E-CACHE.substid: substitute memoises under (Substitute, f, substitution id); new_substitution_id draws "
                "from one atomic counter that is wider than the id (cannot wrap into the id range again), range-checked "
                "by an ordered comparison before narrowing; Substitution::id implementations return the stored id.")
    n = esubst.run(ctx, F)
    ctx.floor("E-CACHE.substid", "obligations on substitution ids", n, 4)
    ctx.explain("E-WHO: the cache holds uncounted edges, so nodes and terminals may be freed only inside the pre_gc/post_gc "
                "bracket: node-removal primitives are called by gc / try_remove_node / the level views only and are gated by "
                "reorder_gc_prepared / allow_node_removal.")
    ewho.run(ctx, F)
    ewho.check_gate_initial(ctx, F)
    ctx.not_decided = "independence of results from eviction order as behaviour; hash quality"
