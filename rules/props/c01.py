"""C01 Canonicity: hash-consing discipline"""
import eptr
import eidx
import elin
import eswap
import evlm
import witness
import ecanon
import ereduce
import eraw
import eunits
import i64table
import eterm
import efreelist
import ewho
import esort
import eskip

LEVEL = "E-CANON + E-TABLE.reduce + E-RAW"


def run(ctx):
    F = ctx.facts("ws")
    ctx.explain("E-CANON: Eq/Hash of both node types read the children only; get_or_insert (both managers) allocates "
                "on the Err(slot) arm only, files the node under the looked-up hash and returns the stored edge on "
                "Ok(slot); every direct node construction is a reviewed site; level_swap mutates a node only while "
                "it is out of the table (set_child before insert, relabel before insert) and unlinks an old child only "
                "after the edges to it are dropped. E-TABLE.reduce: the 12 reduce functions of the five kinds are "
                "interpreted for all abstract children: equal children / empty hi => no node, otherwise a node of the "
                "requested level with the children in order; BCDD: then-edge untagged, complement moved to the result, "
                "denoted function unchanged. E-RAW: the unique tables' open-addressing accounting (a cut probe chain "
                "hides stored nodes, so equal functions get distinct nodes).")
    ecanon.run(ctx, F)
    ecanon.check_level_swap_order(ctx, F)
    n = ereduce.run(ctx, F)
    ctx.floor("E-TABLE.reduce", "abstract situations of the reduce functions", n, 400)
    eraw.run(ctx, F)
    eunits.check_level_swap(ctx, F)
    if ctx.tier == "thorough":
        ctx.explain("E-WITNESS: compile_fail witnesses (with error codes, each with a compiling twin): Edge is not "
                    "Clone, Borrowed cannot outlive its edge, edges are branded by the manager's invariant 'id and cannot "
                    "escape the locking closure.")
        witness.run(ctx)
    ctx.explain("E-NUM.f64: MTBDD terminals are hash-consed by bitwise equality of F64, which is numeric equality only for "
                "normalised values: F64 is built from constants or through the normalising From<f64> only.")
    i64table.check_f64_constructors(ctx, F)
    ctx.explain("E-NUM.terminals: F64::from normalises both NaN signs and -0.0; F64 eq / hash are the value's bits; partial_cmp treats NaN "
                "as equal to NaN and unordered otherwise; the text forms (AsciiDisplay, Display) of NaN, -inf, +inf and numbers are read "
                "back by ParseTagged::parse as the same value, for F64 and I64 (interpreted, f64 bit patterns exact).")
    ctx.explain("E-FREELIST.term.link: the dynamic terminal store's free list, interpreted: gc's sweep closure links each dead slot in front "
                "of the local head (4 -> 2 -> 7, no self-loop), the retain predicate keeps exactly the terminals whose count is not 1, "
                "get_edge pops the head for a new value (count 2, id entered in the table) and answers OutOfMemory exactly at the "
                "end of the store.")
    ntl = efreelist.check_terminal_links(ctx, F)
    ctx.floor("E-FREELIST.term.link", "interpreted terminal free-list situations", ntl, 8)
    nt = eterm.run(ctx, F)
    ctx.floor("E-NUM.terminals", "interpreted terminal situations", nt, 81)
    ctx.explain("Canonicity after reorderings rests on the reordering code keeping the table keyed correctly: E-UNITS (no "
                "variable/level mix-up in the managers, oxidd-reorder and the rules crates), E-WHO (invariant-breaking "
                "primitives called from oxidd-reorder only), E-PERM (+ .relabel: every relabelled level is visited), "
                "E-TABLE.skip (skipped-level cofactors per kind: a wrong split re-inserts nodes denoting another function).")
    nfn, _ = eunits.run(ctx, F, crates=("oxidd_manager_index", "oxidd_manager_pointer", "oxidd_reorder", "oxidd_rules_bdd",
                                        "oxidd_rules_zbdd", "oxidd_rules_mtbdd", "oxidd_rules_tdd"))
    ctx.floor("E-UNITS", "function bodies analysed", nfn, 800)
    ewho.run(ctx, F)
    esort.run(ctx, F)
    esort.check_relabel_worklist(ctx, F)
    eskip.run(ctx, F)
    ctx.explain("E-VLM: the managers' variable <-> level maps stay mutually inverse permutations: extend appends the identity "
                "(new variables at the new bottom levels), swap_levels exchanges exactly two levels in both vectors, lookups read "
                "their own vector; the index-based and the pointer-based manager's copies are the same program.")
    nv = evlm.run(ctx, F)
    ctx.floor("E-VLM", "interpreted VarLevelMap situations", nv, 38)
    ctx.explain("E-TABLE.swap: the per-node body of level_swap is interpreted on a model store (BDD, BCDD with all tag "
                "combinations, ZBDD): a node without a child on the lower level moves down unchanged; otherwise it keeps its "
                "identity, is relabelled and re-inserted at the new upper level with children rebuilt from the grand-cofactors "
                "through the kind's own reduce, denoting the same function of (a, b, sub-functions) under the new order; an "
                "equal node of the old upper level is reused; dead old children are removed exactly once.")
    nsw = eswap.run(ctx, F)
    ctx.floor("E-TABLE.swap", "interpreted level_swap situations", nsw, 80)
    ecanon.check_id_split(ctx, F)
    ctx.explain("E-LIN.rcguard: try_remove_node (both managers) reaches the removal from the unique table only with previous "
                "count 2, prepared manager and re-read count 1. E-CANON.ptrsplit: in the pointer-based manager terminal "
                "operations lie on the !is_inner() edge and inner-node operations on the is_inner() edge.")
    nrg = elin.check_removal_guards(ctx, F)
    ctx.floor("E-LIN.rcguard", "try_remove_node bodies", nrg, 2)
    nps = ecanon.check_ptr_split(ctx, F)
    ctx.floor("E-CANON.ptrsplit", "is_inner() branches of the pointer-based manager", nps, 6)
    ctx.explain("E-PTR.tagbits: the tag-bit arithmetic of the pointer-based manager's edges (masks and is_inner / "
                "all_untagged_ptr / retag_ptr / tag / node_id) is interpreted with one tag bit, exhaustively over the low address "
                "bits: retagging changes only the tag, untagging clears exactly the tag bits, is_inner reads the bit above them.")
    npt = eptr.run(ctx, F)
    ctx.floor("E-PTR.tagbits", "interpreted mask / accessor situations", npt, 11)
    ctx.explain("E-IDX.tagbits: the same for the index-based manager's 32 bit edges (tag in the most significant bits): "
                "TAG_BITS / TAG_SHIFT / TAG_MASK and node_id / is_tagged / with_tag / with_tag_owned / tag / raw are interpreted "
                "for a one-bit tag and for no tag.")
    nit = eidx.run(ctx, F)
    ctx.floor("E-IDX.tagbits", "interpreted constant / accessor situations", nit, 18)
    ctx.not_decided = "the 'iff' over histories (gc, slot reuse, reordering); handle equality across managers"
