"""C05 Reference counts / GC — structural clause: edge linearity (E-LIN)."""
import ecount
import eptr
import eslot
import eslotmodel
import eidx
import eslab
import eslabmodel
import eswap
import ewho
import witness
import ecanon
import edm
import efreelist
import elin
import eevent
import ecfg
import edbg

LEVEL = "E-LIN edge linearity over all bodies"


def run(ctx):
    F = ctx.facts("ws")
    ctx.explain("E-LIN: every MIR Drop terminator on a non-unwind path of every function body of the workspace "
                "(configuration ws = default features + tdd) is inspected; a drop of a type that transparently "
                "carries a raw oxidd_core::Edge/InnerNode is a reference-count leak on that path. Edge-carrying "
                "types with their own Drop impl must be in the vetted destructor table and their destructors must "
                "still call their consumer.")
    st = elin.run(ctx, F)
    ctx.floor("E-LIN", "function bodies analysed", st["bodies"], 3500)
    ctx.floor("E-LIN", "raw-edge drop sites recognised as benign idioms (exhausted iterators etc.)", st["raw_drops"], 5)
    ctx.floor("E-LIN", "vetted destructors in use", st["guards"], 10)
    if ctx.tier == "thorough":
        Fp = ctx.facts("ptr")
        st = elin.run(ctx, Fp, rule="E-LIN[ptr]")
        ctx.floor("E-LIN[ptr]", "function bodies analysed", st["bodies"], 2000)
    ecanon.check_level_swap_order(ctx, F)
    ctx.explain("E-FREELIST: thread-local free lists / node-count deltas are handed to the shared store state only by "
                "moving them out of their Cell (replace(.., 0)). E-CANON.swap: level_swap releases edges to an old child "
                "before unlinking it.")
    efreelist.run(ctx, F)
    ctx.explain("E-CACHE.dm: the apply cache holds uncounted edges; it stays locked (and empty) between pre_gc and post_gc so that "
                "no entry can name a node the collection frees.")
    edm.run(ctx, F)
    ctx.explain("E-FREELIST.count: the shared node count that arms the automatic gc: a failed allocation undoes its +1, an "
                "adjusted thread-local delta is written back or published on every path.")
    n = efreelist.check_count_bookkeeping(ctx, F)
    efreelist.check_terminal_gc(ctx, F)
    ctx.explain("E-FREELIST.term.link: the dynamic terminal store's free list, interpreted: gc's sweep closure links each dead slot in front "
                "of the local head (4 -> 2 -> 7, no self-loop), the retain predicate keeps exactly the terminals whose count is not 1, "
                "get_edge pops the head for a new value (count 2, id entered in the table) and answers OutOfMemory exactly at the "
                "end of the store.")
    ntl = efreelist.check_terminal_links(ctx, F)
    ctx.floor("E-FREELIST.term.link", "interpreted terminal free-list situations", ntl, 8)
    ecfg.check_slab_data_type(ctx, F)
    ctx.explain("E-LIN.forget: where the managers dispose of an owned edge by hand (mem::forget + explicit release), every "
                "path that forgets the edge also releases the reference.")
    elin.check_forget(ctx, F)
    ctx.explain("E-DBG: no side effect (atomic read-modify-write, store, container mutation, assignment) is evaluated inside a "
                "debug assertion; with debug assertions off it would not happen (225 debug-only blocks inspected).")
    n = edbg.run(ctx, F)
    ctx.floor("E-DBG", "debug-only blocks inspected", n, 150)
    ctx.floor("E-FREELIST.count", "node-count bookkeeping obligations", n, 3)
    ctx.explain("E-EVENT.gc-order: Manager::gc sweeps every inner-node level before the terminal table (terminals "
                "referenced only by dead inner nodes become unreferenced during the level sweep).")
    ctx.explain("E-EVENT (gc bracket): gc() of both managers takes gc_ongoing.try_lock first, collects exactly on the edge where the lock "
                "was obtained (returns 0 otherwise), bumps the epoch before removing nodes, brackets the sweep with pre_gc / post_gc and "
                "unlocks.")
    eevent.check_manager(ctx, F, "oxidd_manager_index")
    eevent.check_manager(ctx, F, "oxidd_manager_pointer")
    eevent.check_gc_sweep_order(ctx, F, "oxidd_manager_index")
    eevent.check_gc_sweep_order(ctx, F, "oxidd_manager_pointer")
    if ctx.tier == "thorough":
        ctx.explain("E-WITNESS: compile_fail witnesses (with error codes, each with a compiling twin): Edge is not "
                    "Clone, Borrowed cannot outlive its edge, edges are branded by the manager's invariant 'id and cannot "
                    "escape the locking closure.")
        witness.run(ctx)
    ctx.explain("E-WHO: the operations that temporarily break the level invariants (swap, take, insert_unchecked, "
                "get_or_insert_unchecked, set_child, set_level) are called only from oxidd-reorder; node-removal "
                "primitives only from gc / try_remove_node / level views, gated by reorder_gc_prepared / "
                "allow_node_removal; level_swap uses the unchecked insertions only.")
    ewho.run(ctx, F)
    ctx.explain("E-LIN.mint: inventory of the places in the two manager crates that build an owned Edge value out of a raw id / "
                "pointer (invisible to the drop-based rule): the copying sites (clone_edge*, DynamicTerminalManager::get_edge, "
                "the dynamic terminal iterator) have a reference-count increment or a fresh count on every path to the "
                "creation; the remaining sites are the reviewed raw constructors and ownership transfers; a new site is reported.")
    n = elin.check_mint(ctx, F)
    ctx.floor("E-LIN.mint", "edge-creating functions inventoried", n, 22)
    ctx.explain("E-FREELIST.handover: when a thread's session on a store ends, LocalStoreStateGuard::drop skips return_preallocated "
                "only after inspecting all three thread-local cells (free list, partially used chunk, node-count delta); a "
                "parked free list is otherwise lost when the next session zeroes the local state.")
    nh = efreelist.check_guard_handover(ctx, F)
    ctx.floor("E-FREELIST.handover", "session-end hand-over sites", nh, 1)
    ctx.explain("E-LIN.rcconst: every comparison of a value derived from a reference count (load_rc, release, fetch_sub, the "
                "terminal store's atomic load) with an integer constant in the manager crates and arcslab is one of the 11 "
                "reviewed thresholds (== / != 1: only the unique table holds the node; != 2 in try_remove_node: the table and the "
                "reference being released).")
    nr = elin.check_rc_thresholds(ctx, F)
    ctx.floor("E-LIN.rcconst", "reference-count comparisons inventoried", nr, 11)
    ctx.explain("E-TABLE.swap: the per-node body of level_swap is interpreted on a model store (BDD, BCDD with all tag "
                "combinations, ZBDD): a node without a child on the lower level moves down unchanged; otherwise it keeps its "
                "identity, is relabelled and re-inserted at the new upper level with children rebuilt from the grand-cofactors "
                "through the kind's own reduce, denoting the same function of (a, b, sub-functions) under the new order; an "
                "equal node of the old upper level is reused; dead old children are removed exactly once.")
    nsw = eswap.run(ctx, F)
    ctx.floor("E-TABLE.swap", "interpreted level_swap situations", nsw, 80)
    ctx.explain("E-FREELIST.mark: SharedStoreState::allocated (the slot array's high-water mark; chunks below it belong to "
                "threads that may still be filling them) is written by get_slot_from_shared only, with a value computed by an "
                "addition: it never moves back.")
    nm = efreelist.check_allocation_mark(ctx, F)
    ctx.floor("E-FREELIST.mark", "writers of the allocation mark", nm, 1)
    ecanon.check_id_split(ctx, F)
    ctx.explain("E-FREELIST.link: return_preallocated (session end) is interpreted on a model (chunk size 8): the unused rest of "
                "the chunk is linked slot by slot in front of the thread's own free list, the head (slot index + TERMINALS) is "
                "published, an empty list is not, the node-count delta is moved out, the allocation mark is untouched.")
    nl = efreelist.check_return_links(ctx, F)
    ctx.floor("E-FREELIST.link", "interpreted hand-back situations", nl, 5)
    ctx.explain("E-LIN.rcguard: try_remove_node (both managers) reaches the removal from the unique table only with previous "
                "count 2, prepared manager and re-read count 1. E-CANON.ptrsplit: in the pointer-based manager terminal "
                "operations lie on the !is_inner() edge and inner-node operations on the is_inner() edge.")
    nrg = elin.check_removal_guards(ctx, F)
    ctx.floor("E-LIN.rcguard", "try_remove_node bodies", nrg, 2)
    nps = ecanon.check_ptr_split(ctx, F)
    ctx.floor("E-CANON.ptrsplit", "is_inner() branches of the pointer-based manager", nps, 6)
    ctx.explain("E-PTR.tagbits: the tag-bit arithmetic of the pointer-based manager's edges (masks and is_inner / "
                "all_untagged_ptr / retag_ptr / tag / node_id) is interpreted with one tag bit, exhaustively over the low address "
                "bits: retagging changes only the tag, untagging clears exactly the tag bits, is_inner reads the bit above them.")
    npt = eptr.run(ctx, F)
    ctx.floor("E-PTR.tagbits", "interpreted mask / accessor situations", npt, 11)
    ctx.explain("E-IDX.tagbits: the same for the index-based manager's 32 bit edges (tag in the most significant bits): "
                "TAG_BITS / TAG_SHIFT / TAG_MASK and node_id / is_tagged / with_tag / with_tag_owned / tag / raw are interpreted "
                "for a one-bit tag and for no tag.")
    nit = eidx.run(ctx, F)
    ctx.floor("E-IDX.tagbits", "interpreted constant / accessor situations", nit, 18)
    ctx.explain("E-SLAB.page: a fresh page of the pointer-based manager's slab allocator (Page::new, interpreted with integer addresses: "
                "256 byte page, 40 byte header, 16 byte slots) threads exactly the 13 slots that fit into one null-terminated free list "
                "inside the page; Page::page_ptr masks any address of the page to its base.")
    nsl = eslab.run(ctx, F)
    ctx.floor("E-SLAB.page", "interpreted slab page situations", nsl, 4)
    ctx.explain("E-SLAB.model: PageList::new / get_slot and Page::free_slot of the pointer-based store's slab allocator interpreted with integer "
                "addresses and a memory of slot links and page headers: 30 allocations return distinct slots inside allocated, chained "
                "pages; freed slots are reused last-in first-out; no slot in use is ever handed out.")
    nsm2 = eslabmodel.run(ctx, F)
    ctx.floor("E-SLAB.model", "interpreted slab allocations", nsm2, 35)
    ctx.explain("E-FREELIST.sentinel: every constant that meets a free-list head (Cell::set / replace, pop().unwrap_or, comparisons) is "
                "the end-of-list marker 0. E-FREELIST.countsign: the shared node count receives deltas by addition; subtractions are "
                "`-= 1` only.")
    nse = efreelist.check_sentinel(ctx, F)
    ctx.floor("E-FREELIST.sentinel", "sentinel constants", nse, 7)
    efreelist.check_count_signs(ctx, F)
    ctx.explain("E-FREELIST.binding: the thread-local free list / chunk cursor / count delta are touched only on the edge where "
                "`current_store` equals this store's address (add_node, free_slot).")
    nsb = efreelist.check_store_binding(ctx, F)
    ctx.floor("E-FREELIST.binding", "current_store tests", nsb, 2)
    ewho.check_gate_initial(ctx, F)
    ctx.explain("E-COUNT.underflow: no unsigned local that starts at the literal 0 is only ever decremented (it would underflow at its "
                "first update); detector checked against a built-in positive example on every run.")
    ctx.explain("E-SLOT.bound: where a function compares an index with the slot array's length and then uses get_unchecked(index), "
                "the call is unreachable once the CFG edges that establish index < len are removed (a `<=` or flipped test lets the "
                "bump allocator write one slot past the allocation).")
    ctx.explain("E-SLOT.model: add_node / get_slot_from_shared / use_free_slot interpreted on a model store (chunk size 4, 10 slots): one "
                "worker thread, one foreign thread, two alternating threads and recycled slots from the shared free list -- every slot is "
                "handed out exactly once, each node is written to its own slot, and OutOfMemory comes exactly when nothing is left.")
    nsm = eslotmodel.run(ctx, F)
    ctx.floor("E-SLOT.model", "interpreted allocation sequences", nsm, 11)
    nsb = eslot.run(ctx, F)
    ctx.floor("E-SLOT.bound", "get_unchecked calls with a local length comparison", nsb, 2)
    ecount.run(ctx, F, ('oxidd_manager_index', 'oxidd_manager_pointer', 'arcslab'))
    ctx.not_decided = ("exactness of counts over histories; the unsafe internals of the managers; "
                       "capacity restoration after gc")
