"""C20 Build configurations"""
import elevels
import elock
import eptr
import eidx
import eslab
import eslabmodel
import ecanon
import elin
import evlm
import esort
import eeval
import ecfg
import eunits

LEVEL = "E-CFG"
QUICK = ("ptr", "idx-nocache-st", "ptr-nocache-st")
ALL = ("ptr", "idx-nocache-st", "ptr-nocache-st", "idx-cache-st", "ptr-cache-st", "idx-nocache-mt", "ptr-nocache-mt")


def run(ctx):
    F = ctx.facts("ws")
    ctx.explain("E-CFG: the corners of {index, pointer} x {cache on, off} x {multi-threaded, sequential} are type-checked "
                "with the fact extractor injected (quick: default + 3 extreme corners; thorough: all 8), which makes "
                "rustc prove that both backends implement the Manager/LevelView/Function interfaces the algorithms are "
                "written against and that the algorithms instantiate with NoApplyCache and the sequential function types; "
                "on every corner E-LIN and E-WRAP are re-run, on the cache-enabled corners also E-CACHE/E-CACHE.hit and "
                "the E-EVENT brackets of the backend in use. Siblings: the InnerNode::ARITY constants of both node types "
                "are the type's ARITY parameter and their method bodies agree (modulo integer width); NoApplyCache is the "
                "constant miss.")
    ecfg.check_siblings(ctx, F)
    ecfg.check_noapplycache(ctx, F)
    ctx.explain("E-CFG.slabtype: every arcslab handle type in the pointer manager names the slab's own data type "
                "(the handle locates the slab header through it when a slot is freed).")
    n = ecfg.check_slab_data_type(ctx, F)
    ctx.explain("E-UNITS on the rules crates: the hand-over from the parallel to the sequential recursor and the ST / MT "
                "wrappers pass variable and level numbers in their declared positions.")
    nfn, _ = eunits.run(ctx, F, crates=("oxidd_rules_bdd", "oxidd_rules_zbdd", "oxidd_rules_mtbdd", "oxidd_rules_tdd"))
    ctx.floor("E-CFG.slabtype", "arcslab handle / slab types in the pointer manager", n, 50)
    ecfg.run_config(ctx, "ws", deep=True)
    for c in (ALL if ctx.tier == "thorough" else QUICK):
        ecfg.run_config(ctx, c, deep=("nocache" not in c))
    ctx.explain("E-WRAP.delegate: the multi-threaded function types forward the non-recursive operations (constructors, eval, "
                "sat_count, pick_cube*) to the sequential type: the item of the same name with the parameters in order.")
    nd = eeval.check_mt_delegations(ctx, F)
    ctx.floor("E-WRAP.delegate", "forwarding methods of the MT function types", nd, 15)
    ctx.explain("E-PERM (+ .blocked, .relabel): the worker count selects between the sequential and the concurrent reordering path "
                "(set_var_order): the concurrent bubble sort's position-blocking protocol (typestate analysis of every path of "
                "the worker loop) and the parallel relabelling pass are necessary for both paths to reach the same order.")
    esort.run(ctx, F)
    esort.check_blocked(ctx, F)
    esort.check_relabel_worklist(ctx, F)
    ctx.explain("E-VLM: the managers' variable <-> level maps stay mutually inverse permutations: extend appends the identity "
                "(new variables at the new bottom levels), swap_levels exchanges exactly two levels in both vectors, lookups read "
                "their own vector; the index-based and the pointer-based manager's copies are the same program.")
    nv = evlm.run(ctx, F)
    ctx.floor("E-VLM", "interpreted VarLevelMap situations", nv, 38)
    ctx.explain("E-PERM.acquire: in the concurrent bubble sort a position is taken for a further swap (blocked.insert) only on the "
                "`false` edge of a dominating blocked.contains test: two swaps never restructure a common level.")
    na = esort.check_acquire_guard(ctx, F)
    ctx.floor("E-PERM.acquire", "position acquisitions in the worker loop", na, 2)
    ctx.explain("E-LIN.rcguard: try_remove_node (both managers) reaches the removal from the unique table only with previous "
                "count 2, prepared manager and re-read count 1. E-CANON.ptrsplit: in the pointer-based manager terminal "
                "operations lie on the !is_inner() edge and inner-node operations on the is_inner() edge.")
    nrg = elin.check_removal_guards(ctx, F)
    ctx.floor("E-LIN.rcguard", "try_remove_node bodies", nrg, 2)
    nps = ecanon.check_ptr_split(ctx, F)
    ctx.floor("E-CANON.ptrsplit", "is_inner() branches of the pointer-based manager", nps, 6)
    ctx.explain("E-PTR.tagbits: the tag-bit arithmetic of the pointer-based manager's edges (masks and is_inner / "
                "all_untagged_ptr / retag_ptr / tag / node_id) is interpreted with one tag bit, exhaustively over the low address "
                "bits: retagging changes only the tag, untagging clears exactly the tag bits, is_inner reads the bit above them.")
    npt = eptr.run(ctx, F)
    ctx.floor("E-PTR.tagbits", "interpreted mask / accessor situations", npt, 11)
    ctx.explain("E-IDX.tagbits: the same for the index-based manager's 32 bit edges (tag in the most significant bits): "
                "TAG_BITS / TAG_SHIFT / TAG_MASK and node_id / is_tagged / with_tag / with_tag_owned / tag / raw are interpreted "
                "for a one-bit tag and for no tag.")
    nit = eidx.run(ctx, F)
    ctx.floor("E-IDX.tagbits", "interpreted constant / accessor situations", nit, 18)
    ctx.explain("E-SLAB.page: a fresh page of the pointer-based manager's slab allocator (Page::new, interpreted with integer addresses: "
                "256 byte page, 40 byte header, 16 byte slots) threads exactly the 13 slots that fit into one null-terminated free list "
                "inside the page; Page::page_ptr masks any address of the page to its base.")
    nsl = eslab.run(ctx, F)
    ctx.floor("E-SLAB.page", "interpreted slab page situations", nsl, 4)
    ctx.explain("E-SLAB.model: PageList::new / get_slot and Page::free_slot of the pointer-based store's slab allocator interpreted with integer "
                "addresses and a memory of slot links and page headers: 30 allocations return distinct slots inside allocated, chained "
                "pages; freed slots are reused last-in first-out; no slot in use is ever handed out.")
    nsm2 = eslabmodel.run(ctx, F)
    ctx.floor("E-SLAB.model", "interpreted slab allocations", nsm2, 35)
    ctx.explain("E-REC.depth: every splitting method of the ParallelRecursors decrements remaining_depth, the switch to the "
                "sequential recursor happens exactly at 0, and the SequentialRecursor never asks for a switch.")
    nrd = elock.run_recursor_depth(ctx, F)
    ctx.floor("E-REC.depth", "recursor obligations", nrd, 6)
    ctx.explain("E-LEVELS: Manager::levels() (forward, backward and mixed iteration) and Manager::level(no) of both managers pair "
                "every level number with that level's unique table (interpreted on a four-level model).")
    nlv = elevels.run(ctx, F)
    ctx.floor("E-LEVELS", "interpreted iteration / access situations", nlv, 16)
    ctx.not_decided = "observational equivalence of results and node counts across configurations"
