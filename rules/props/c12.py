"""C12 Model counting: cache-validity clause"""
import substrate
import eevent
import epost
import eunits
import esat
import ecarry

LEVEL = "E-POST + E-EVENT"


def run(ctx):
    F = ctx.facts("ws")
    ctx.explain("E-POST.satcache: all MIR paths of SatCountCache::clear_if_invalid are enumerated; on each, both label "
                "fields (epoch, vars) are either compared equal with the current value (Manager::gc_count(), the "
                "`vars` argument) or overwritten with it, and the map is cleared on any mismatch. E-POST.satcount: in "
                "every sat_count_edge (BDD, BCDD, ZBDD) clear_if_invalid dominates the counting recursion. E-EVENT: "
                "gc_count is bumped by gc and by reorder in both managers. E-UNITS on the counting code.")
    epost.check_clear_if_invalid(ctx, F)
    epost.check_sat_count_uses(ctx, F)
    epost.check_count_cache_users(ctx, F)
    eevent.check_manager(ctx, F, "oxidd_manager_index")
    eevent.check_manager(ctx, F, "oxidd_manager_pointer")
    ctx.explain("E-SAT: sat_count_edge::inner (BDD, BCDD, ZBDD) interpreted with symbolic numbers: terminal base cases, "
                "count(node) = (count(c0) + count(c1)) >> 1 over the cofactors seen through the complement tag (ZBDD: "
                "count(hi) + count(lo)), insert under the looked-up key, hit returns the stored value, complemented and "
                "plain edges use different keys.")
    n = esat.run(ctx, F)
    ctx.floor("E-SAT", "interpreted runs of the counting recursion", n, 25)
    ctx.explain("E-SAT.scale: every subtraction involving sat_count_edge's `vars` parameter is guarded by a comparison on it; "
                "the number types do not use checked_shl/checked_shr as an overflow test.")
    n = esat.check_scaling(ctx, F)
    ctx.floor("E-SAT.scale", "sat_count_edge bodies with a `vars` parameter", n, 5)
    ctx.explain("E-CARRY: in Natural's multi-digit addition no computed carry is overwritten before it is read.")
    fns, defs = ecarry.run(ctx, F)
    ctx.floor("E-CARRY", "carry definitions checked", defs, 8)
    ctx.explain("E-NUM.rawview: Natural keeps a possibly unnormalised digit array (Add may leave a most-significant zero digit); "
                "mantissa() strips it, mantissa_raw() does not. Who-may-call: the raw view is read only by bit_width and "
                "u128::try_from (reviewed); every consumer of the top digit goes through mantissa().")
    n = ecarry.check_raw_view(ctx, F)
    ctx.floor("E-NUM.rawview", "functions reading the raw digit view", n, 2)
    substrate.run(ctx, F, dm=True)
    ctx.explain("E-SAT.scale.pair: the scale-down of the terminal value (2^(vars - scale_exp)) and the scale-up of the result (<< "
                "scale_exp) of sat_count_edge are taken under one and the same condition.")
    nsp = esat.check_scale_pairing(ctx, F)
    ctx.floor("E-SAT.scale.pair", "sat_count_edge bodies with precision scaling", nsp, 2)
    ctx.not_decided = ("exactness of the number types beyond the carry chain (shifts, comparisons, conversions, textual "
                       "output), the scaling by 2^vars around the recursion")
