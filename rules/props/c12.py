"""C12 Model counting: cache-validity clause"""
import eevent
import epost
import eunits

LEVEL = "E-POST + E-EVENT"


def run(ctx):
    F = ctx.facts("ws")
    ctx.explain("E-POST.satcache: all MIR paths of SatCountCache::clear_if_invalid are enumerated; on each, both label "
                "fields (epoch, vars) are either compared equal with the current value (Manager::gc_count(), the "
                "`vars` argument) or overwritten with it, and the map is cleared on any mismatch. E-POST.satcount: in "
                "every sat_count_edge (BDD, BCDD, ZBDD) clear_if_invalid dominates the counting recursion. E-EVENT: "
                "gc_count is bumped by gc and by reorder in both managers. E-UNITS on the counting code.")
    epost.check_clear_if_invalid(ctx, F)
    epost.check_sat_count_uses(ctx, F)
    eevent.check_manager(ctx, F, "oxidd_manager_index")
    eevent.check_manager(ctx, F, "oxidd_manager_pointer")
    ctx.not_decided = "exactness of the count and all of the big-natural arithmetic (value-level)"
