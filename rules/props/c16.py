"""C16 Variable / name bookkeeping"""
import evlm
import eevent
import eunits
import evnm
import evnm2

LEVEL = "E-VNM + E-EVENT + E-UNITS"


def run(ctx):
    F = ctx.facts("ws")
    ctx.explain("E-VNM over VarNameMap (MIR): a non-empty name is pushed to `names` only after VacantEntry::insert put it "
                "into `index`; every slot displaced from `names` is removed from `index` before it is freed; "
                "Unowned::into_box is applied to a fresh key only while it is not in `index`, to a displaced slot only "
                "after index.remove, to drained keys only after names.clear(). E-EVENT: add_vars / add_named_vars / "
                "add_named_vars_from_map of both managers extend unique table, var/level map and name map between "
                "pre_reorder(+_mut) and post_reorder(+_mut); in add_named_vars the scope guard (which resizes the level "
                "table to the name map's length on every exit) exists before names are added. E-UNITS on the managers.")
    evnm.run(ctx, F)
    ctx.explain("E-VNM.lockstep: in add_named every path through the loop body appends exactly one name per variable number "
                "drawn, so that index[name] is the position of name in `names`.")
    n = evnm2.run(ctx, F)
    evnm2.check_clone(ctx, F)
    ctx.floor("E-VNM.lockstep", "loop paths of add_named", n, 2)
    eevent.check_manager(ctx, F, "oxidd_manager_index")
    eevent.check_manager(ctx, F, "oxidd_manager_pointer")
    nfn, _ = eunits.run(ctx, F, crates=("oxidd_core", "oxidd_manager_index", "oxidd_manager_pointer"))
    ctx.floor("E-UNITS", "function bodies analysed", nfn, 400)
    ctx.explain("E-VLM: the managers' variable <-> level maps stay mutually inverse permutations: extend appends the identity "
                "(new variables at the new bottom levels), swap_levels exchanges exactly two levels in both vectors, lookups read "
                "their own vector; the index-based and the pointer-based manager's copies are the same program.")
    nv = evlm.run(ctx, F)
    ctx.floor("E-VLM", "interpreted VarLevelMap situations", nv, 38)
    ctx.explain("E-VNM.dup: set_var_name rejects a present name exactly when it belongs to a different variable (the error is "
                "built on the `owner != var` edge only).")
    evnm2.check_duplicate_test(ctx, F)
    ctx.explain("E-VNM.key: the key type of the name index (Unowned<str>) compares and hashes by content through hand-written "
                "impls (`**self`), as its Borrow<str> lookups require; a derived impl would use the pointer.")
    evnm2.check_key_type(ctx, F)
    nd = evnm2.check_displaced_removed(ctx, F)
    ctx.floor("E-VNM.displace.nonempty", "guarded removals of displaced names", nd, 1)
    ctx.explain("E-VNM.addvars: add_vars(k) and the add_named_vars_from_map fast path of both managers are interpreted on a model "
                "manager: level table, var/level map and name map grow by k (resp. to the map's length) and the returned range is "
                "exactly the new variables' numbers.")
    nav = evnm2.check_add_vars(ctx, F)
    ctx.floor("E-VNM.addvars", "interpreted add_vars situations", nav, 10)
    evnm2.check_get_or_add_flag(ctx, F)
    ctx.not_decided = "the bijection over call sequences as behaviour; that adding variables preserves functions"
