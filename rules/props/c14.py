"""C14 Resource exhaustion"""
import elin
import efreelist
import eslotmodel
import eoom
import eevent
import edbg

LEVEL = "E-LIN restricted to the error paths"
CRATES = ("oxidd_rules_bdd", "oxidd_rules_zbdd", "oxidd_rules_mtbdd", "oxidd_rules_tdd", "oxidd_dump",
          "oxidd_reorder", "oxidd_core", "oxidd_manager_index", "oxidd_manager_pointer", "oxidd", "oxidd_ffi_c")


def run(ctx):
    F = ctx.facts("ws")
    ctx.explain("E-LIN: 'releases everything it had acquired' on the out-of-memory path is exactly: on every `?`/Err "
                "exit of every function no owned edge is dropped by the compiler (it must sit in a guard or be "
                "released through the manager). All non-unwind Drop terminators of the rules crates, oxidd-dump, "
                "oxidd-reorder, the managers and the FFI crate are inspected.")
    st = elin.run(ctx, F, crates=CRATES)
    ctx.floor("E-LIN", "function bodies analysed", st["bodies"], 2500)
    ctx.explain("E-OOM: Result<_, OutOfMemory>::unwrap/expect is applied only to get_terminal of managers with static "
                "terminals; std::process::abort is reachable only through the reviewed sites (AbortOnDrop, rc overflow "
                "guards). The two by-design abort-on-OOM sites are known findings.")
    eoom.run(ctx, F)
    ctx.explain("E-FREELIST.count: an OutOfMemory exit of get_slot_from_shared undoes the +1 it added to the shared node count.")
    efreelist.check_count_bookkeeping(ctx, F)
    ctx.explain("E-FREELIST.lastresort: get_slot_from_shared answers OutOfMemory only after consulting the shared free lists "
                "(slots freed by a collection come back through them only; the array's high-water mark never decreases).")
    n = efreelist.check_oom_last_resort(ctx, F)
    ctx.floor("E-FREELIST.lastresort", "get_slot_from_shared bodies", n, 1)
    ctx.explain("E-FREELIST.term: the dynamic terminal manager's gc writes the free list it built back to its state "
                "(freed terminal slots are reusable by the retry).")
    efreelist.check_terminal_gc(ctx, F)
    ctx.explain("E-SLOT.model: allocation sequences on a model store answer OutOfMemory exactly when no slot is left, release the new "
                "node's children on that path, and keep answering OutOfMemory afterwards.")
    eslotmodel.run(ctx, F)
    ctx.explain("E-FREELIST.term.link: the dynamic terminal store's free list, interpreted: gc's sweep closure links each dead slot in front "
                "of the local head (4 -> 2 -> 7, no self-loop), the retain predicate keeps exactly the terminals whose count is not 1, "
                "get_edge pops the head for a new value (count 2, id entered in the table) and answers OutOfMemory exactly at the "
                "end of the store.")
    ntl = efreelist.check_terminal_links(ctx, F)
    ctx.floor("E-FREELIST.term.link", "interpreted terminal free-list situations", ntl, 8)
    elin.check_forget(ctx, F)
    ctx.explain("E-DBG: no side effect (atomic read-modify-write, store, container mutation, assignment) is evaluated inside a "
                "debug assertion; with debug assertions off it would not happen (225 debug-only blocks inspected).")
    n = edbg.run(ctx, F)
    ctx.floor("E-DBG", "debug-only blocks inspected", n, 150)
    ctx.explain("E-EVENT.gc-order: terminals are swept after all inner-node levels, so that one collection after dropping "
                "the handles of a failed operation frees the terminal slots the retry needs.")
    eevent.check_gc_sweep_order(ctx, F, "oxidd_manager_index")
    eevent.check_gc_sweep_order(ctx, F, "oxidd_manager_pointer")
    ctx.explain("E-FREELIST.handover: when a thread's session on a store ends, LocalStoreStateGuard::drop skips return_preallocated "
                "only after inspecting all three thread-local cells (free list, partially used chunk, node-count delta); a "
                "parked free list is otherwise lost when the next session zeroes the local state.")
    nh = efreelist.check_guard_handover(ctx, F)
    ctx.floor("E-FREELIST.handover", "session-end hand-over sites", nh, 1)
    ctx.explain("E-FREELIST.mark: SharedStoreState::allocated (the slot array's high-water mark; chunks below it belong to "
                "threads that may still be filling them) is written by get_slot_from_shared only, with a value computed by an "
                "addition: it never moves back.")
    nm = efreelist.check_allocation_mark(ctx, F)
    ctx.floor("E-FREELIST.mark", "writers of the allocation mark", nm, 1)
    ctx.explain("E-FREELIST.link: return_preallocated (session end) is interpreted on a model (chunk size 8): the unused rest of "
                "the chunk is linked slot by slot in front of the thread's own free list, the head (slot index + TERMINALS) is "
                "published, an empty list is not, the node-count delta is moved out, the allocation mark is untouched.")
    nl = efreelist.check_return_links(ctx, F)
    ctx.floor("E-FREELIST.link", "interpreted hand-back situations", nl, 5)
    ctx.explain("E-FREELIST.sentinel: every constant that meets a free-list head (Cell::set / replace, pop().unwrap_or, comparisons) is "
                "the end-of-list marker 0. E-FREELIST.countsign: the shared node count receives deltas by addition; subtractions are "
                "`-= 1` only.")
    nse = efreelist.check_sentinel(ctx, F)
    ctx.floor("E-FREELIST.sentinel", "sentinel constants", nse, 7)
    efreelist.check_count_signs(ctx, F)
    ctx.not_decided = "validity of handles after failure, success on retry, panics other than AllocResult unwraps"
