"""C08 Reordering"""
import ecount
import elevels
import eswap
import evlm
import etaut
import eevent
import esort
import ewho
import ecanon
import elin
import eunits
import eskip
import eraw

LEVEL = "E-UNITS.pre + E-UNITS + E-LIN on oxidd-reorder"


def run(ctx):
    F = ctx.facts("ws")
    ctx.explain("E-UNITS.pre: in level_swap the level numbers stored in nodes (stale while set_var_order renumbers "
                "lazily) only meet the `_pre` parameters; level views are addressed by positions; nodes created at the "
                "new lower level and nodes kept at the new upper level get the stale number of their level. "
                "E-UNITS: no variable number meets a level number in oxidd-reorder and the managers. "
                "E-LIN: no owned edge is dropped by the compiler in oxidd-reorder (level_swap juggles owned edges "
                "under set_child).")
    eunits.check_level_swap(ctx, F)
    nfn, nsites = eunits.run(ctx, F, crates=("oxidd_reorder", "oxidd_manager_index", "oxidd_manager_pointer", "oxidd_core"))
    ctx.floor("E-UNITS", "function bodies analysed", nfn, 500)
    st = elin.run(ctx, F, crates=("oxidd_reorder",), skip_guard_table=True)
    ctx.floor("E-LIN", "oxidd-reorder bodies analysed", st["bodies"], 30)
    ecanon.check_level_swap_order(ctx, F)
    ctx.explain("E-WHO: the operations that temporarily break the level invariants (swap, take, insert_unchecked, "
                "get_or_insert_unchecked, set_child, set_level) are called only from oxidd-reorder; node-removal "
                "primitives only from gc / try_remove_node / level views, gated by reorder_gc_prepared / "
                "allow_node_removal; level_swap uses the unchecked insertions only.")
    ewho.run(ctx, F)
    ctx.explain("E-PERM: the level-permutation loop of set_var_order_common advances its position counter only on "
                "the `element already in place` edge (loop invariant: all earlier positions are final) and swaps "
                "level views, to_pre and target_order together.")
    esort.run(ctx, F)
    ctx.explain("E-PERM.relabel: the parallel relabelling pass (update_levels) builds its work list from the position of each "
                "level (LevelView::level_no), never from the stale number in to_pre, and the worker closure relabels the level "
                "looked up from the work-list element.")
    n = esort.check_relabel_worklist(ctx, F)
    ctx.floor("E-PERM.relabel", "work-list obligations", n, 2)
    ctx.explain("E-TABLE.skip: DiagramRules::skipped_cofactor of every kind (override or trait default) is interpreted and must "
                "yield the cofactors of an edge w.r.t. a variable above its node under the kind's semantics of a skipped level "
                "(don't-care; zero-suppressed for ZBDDs); level_swap splits children below the lower level through it.")
    n = eskip.run(ctx, F)
    ctx.floor("E-TABLE.skip", "interpreted skipped-cofactor cases", n, 20)
    ctx.explain("E-EVENT: Manager::reorder of both managers brackets the closure (pre_gc, prepared flag, pre/post_reorder, "
                "post_gc) and bumps the gc epoch on every path (caches keyed on it must not survive a reordering).")
    eevent.check_manager(ctx, F, "oxidd_manager_index")
    eevent.check_manager(ctx, F, "oxidd_manager_pointer")
    ctx.explain("E-TAUT: ZBDDCache::tautology(level) returns the chain entry covering exactly the levels from `level` down "
                "(Base beyond the last level); post_reorder_mut (run on init, add_vars and after reordering) starts the chain "
                "with Base, walks the levels bottom-up and appends node(level; prev, prev) per level, then stores the chain.")
    n = etaut.run(ctx, F)
    ctx.floor("E-TAUT", "lookup / build situations", n, 8)
    ctx.explain("E-RAW: level_swap removes dying nodes from, and looks rewritten nodes up in, the per-level open-addressing "
                "tables: probe chains stay intact (a vacated slot becomes FREE only next to a FREE cyclic successor, lookups stop "
                "on FREE only, free-slot accounting) -- otherwise a live node becomes unfindable and a duplicate is created.")
    eraw.run(ctx, F)
    ctx.explain("E-VLM: the managers' variable <-> level maps stay mutually inverse permutations: extend appends the identity "
                "(new variables at the new bottom levels), swap_levels exchanges exactly two levels in both vectors, lookups read "
                "their own vector; the index-based and the pointer-based manager's copies are the same program.")
    nv = evlm.run(ctx, F)
    ctx.floor("E-VLM", "interpreted VarLevelMap situations", nv, 38)
    ctx.explain("E-TABLE.swap: the per-node body of level_swap is interpreted on a model store (BDD, BCDD with all tag "
                "combinations, ZBDD): a node without a child on the lower level moves down unchanged; otherwise it keeps its "
                "identity, is relabelled and re-inserted at the new upper level with children rebuilt from the grand-cofactors "
                "through the kind's own reduce, denoting the same function of (a, b, sub-functions) under the new order; an "
                "equal node of the old upper level is reused; dead old children are removed exactly once.")
    nsw = eswap.run(ctx, F)
    ctx.floor("E-TABLE.swap", "interpreted level_swap situations", nsw, 80)
    ctx.explain("E-PERM.acquire: in the concurrent bubble sort a position is taken for a further swap (blocked.insert) only on the "
                "`false` edge of a dominating blocked.contains test: two swaps never restructure a common level.")
    na = esort.check_acquire_guard(ctx, F)
    ctx.floor("E-PERM.acquire", "position acquisitions in the worker loop", na, 2)
    ctx.explain("E-PERM.leveldown: level_down(u) swaps (u, u + 1) with matching stale numbers and rewrites the level numbers of "
                "both levels afterwards.")
    esort.check_level_down(ctx, F)
    ctx.explain("E-LEVELS: Manager::levels() (forward, backward and mixed iteration) and Manager::level(no) of both managers pair "
                "every level number with that level's unique table (interpreted on a four-level model).")
    nlv = elevels.run(ctx, F)
    ctx.floor("E-LEVELS", "interpreted iteration / access situations", nlv, 16)
    ctx.explain("E-PERM.relabel.cond: update_levels / update_levels_seq relabel every level whose position differs from the stale "
                "number of its nodes (the parallel variant may skip empty levels only).")
    esort.check_relabel_conditions(ctx, F)
    ctx.explain("E-COUNT.underflow: no unsigned local that starts at the literal 0 is only ever decremented (it would underflow at its "
                "first update); detector checked against a built-in positive example on every run.")
    ecount.run(ctx, F, ('oxidd_reorder',))
    ctx.not_decided = ("that functions are preserved, that the requested order is reached with minimal swaps, "
                       "non-overlap of concurrent swaps (runtime indices)")
