"""C02 Boolean connectives, ITE, constants: terminal cases + wiring"""
import substrate
import edm
import etaut
import ector
import ecof
import eeval
import ereduce
import eshort
import ecache
import eunits
import ewrap
import kinds
import tables
import eshortc
import estep

LEVEL = "E-TABLE + E-WRAP"


def run(ctx):
    F = ctx.facts("ws")
    ctx.explain("E-TABLE: oxidd_rules_bdd::simple::terminal_bin is interpreted from its type-checked HIR for each of "
                "the 8 operators and all pairs of abstract operands {False, True, x, y}; the returned Done/Not/Binary "
                "term is compared with the propositional truth table over all valuations of x, y. "
                "E-WRAP: every `x_edge` method of the BooleanFunction impls (BDD, BCDD, ZBDD; sequential and "
                "multi-threaded) is interpreted over symbolic operands with the algorithm entry points as builtins "
                "(apply_bin::<OP> = OP, apply_and, not, apply_union = or, apply_diff(a,b) = a and not b, ...) and "
                "compared with the connective it is named for over all valuations; the default methods of "
                "oxidd_core::function forward `m` to `m_edge` with operands in order.")
    n = tables.check_binary_table(ctx, F, "E-TABLE.bdd", "oxidd_rules_bdd::simple::terminal_bin", tables.BDD,
                                  "oxidd_rules_bdd::simple::BDDOp", "oxidd_rules_bdd::simple::Operation")
    ctx.floor("E-TABLE.bdd", "abstract situations evaluated", n, 8 * 16)
    kinds.wrappers(ctx, F, "bdd", [kinds.BF], 20)
    kinds.wrappers(ctx, F, "bcdd", [kinds.BF], 20)
    kinds.wrappers(ctx, F, "zbdd", [kinds.BF], 20)
    n = ewrap.check_trait_defaults(ctx, F)
    ctx.floor("E-WRAP.default", "default methods with an _edge sibling", n, 60)
    ctx.explain("E-UNITS: no variable number meets a level number (both are u32) in the rules crate(s).")
    nfn, _ = eunits.run(ctx, F, crates=("oxidd_rules_bdd", "oxidd_rules_zbdd"))
    ctx.floor("E-UNITS", "function bodies analysed", nfn, 100)
    ctx.explain("E-CACHE: in this kind's algorithm functions the apply-cache key of every insertion equals the key "
                "of the lookup, the memoised value is the returned value, hit and miss paths agree, tags are disjoint.")
    n = ecache.run(ctx, F, crates=("oxidd_rules_bdd::", "oxidd_rules_zbdd::"))
    ctx.floor("E-CACHE", "cache-using algorithm functions", n, 15)
    ecache.check_hit_equals_miss(ctx, F, crates=("oxidd_rules_bdd::", "oxidd_rules_zbdd::"))
    ctx.explain("E-TABLE.shortcut: the shortcut prefix (equal/constant operands, delegations) of apply_ite and of the "
                "ZBDD set operations is interpreted for all operand tuples over {constants, x, y, z} up to the cache "
                "lookup; every shortcut taken must denote the operation.")
    n = eshort.run(ctx, F, kinds=("bdd", "zbdd"))
    ctx.floor("E-TABLE.shortcut", "shortcut situations interpreted", n, 20)
    ctx.explain("E-TABLE.bcdd: terminal_and / terminal_xor of the complement-edge BDDs are interpreted for all 36 pairs of "
                "{T, x, y} x {plain, complemented} and compared with and / xor on the denoted functions.")
    n = ereduce.check_bcdd_terminal_tables(ctx, F)
    ctx.floor("E-TABLE.bcdd", "operand pairs of terminal_and/terminal_xor", n, 72)
    n = eshortc.run(ctx, F)
    ctx.floor("E-TABLE.shortcut", "BCDD apply_ite operand tuples interpreted", n, 400)
    ctx.explain("E-TABLE.step: the recursive (Shannon expansion) step is interpreted on structured abstract operands -- inner nodes "
                "with opaque or nested children in every relative level configuration (and every complement-tag "
                "combination for BCDDs); recursive calls are builtins with the meaning of the callee, reduce yields a node. "
                "The returned edge must denote the operation for all values of atoms and decision variables, the new "
                "node must respect the variable order, and a cache entry must be valid for its key.")
    n = estep.run(ctx, F, kinds=("bdd", "bcdd", "zbdd"), parts=("bin", "ite", "not"))
    ctx.floor("E-TABLE.step", "situations of the recursive step (apply_bin, apply_ite, set operations)", n, 300)
    ctx.explain("E-EVAL: eval_edge is interpreted in two single steps -- one iteration of the argument loop (the entry of "
                "var_to_level(var) ends up holding an encoding of the value that does not depend on its previous content: "
                "the value given last counts; other entries untouched; ZBDD: the counter of true variables is kept exact) and "
                "one call of `inner` (recurses once into the child for the stored value -- true: first, false: last, "
                "unknown: middle -- with the same table; complement flag / counter handed down correctly; terminals "
                "yield their value), plus the initial call and the multi-threaded delegation.")
    n = eeval.run(ctx, F, only=("bdd", "bcdd", "zbdd"))
    ctx.floor("E-EVAL", "interpreted eval situations", n, 40)
    ctx.explain("E-TABLE.cof: DiagramRules::cofactors (driven through its iterator's own next) and DiagramRules::cofactor (override "
                "or trait default) are interpreted on a node whose children carry every tag combination, for every incoming "
                "tag: the i-th result is the i-th child with the incoming tag applied (the builtin the step rules assume); "
                "cofactors_node / cofactors_edge hand out cofactor 0, 1[, 2] of the edge's own tag and node, None for terminals.")
    n = ecof.run(ctx, F, only=("simple", "complement_edge", "zbdd"))
    ctx.floor("E-TABLE.cof", "interpreted cofactor situations", n, 25)
    n = ecof.check_accessors(ctx, F)
    ctx.floor("E-TABLE.cof.access", "accessor situations", n, 3)
    ctx.explain("E-TABLE.ctor: f_edge / t_edge / u_edge / constant_edge / var_edge / not_var_edge of the function types (ST and "
                "MT) are interpreted and must build the constant terminal resp. a node created at var_to_level(var) whose "
                "children are (true, false) / (1, 0) / (true, unknown, false) in that order (BCDD: (T, !T) behind an untagged "
                "edge; ZBDD: (tautology(level + 1), Empty) as the first node of its chain); the default not_var is not(var).")
    n = ector.run(ctx, F, only=("bdd", "bcdd", "zbdd"))
    ctx.floor("E-TABLE.ctor", "interpreted constructor bodies", n, 15)
    ector.check_zbdd_var_chain(ctx, F)
    ctx.explain("E-TAUT: ZBDDCache::tautology(level) returns the chain entry covering exactly the levels from `level` down "
                "(Base beyond the last level); post_reorder_mut (run on init, add_vars and after reordering) starts the chain "
                "with Base, walks the levels bottom-up and appends node(level; prev, prev) per level, then stores the chain.")
    n = etaut.run(ctx, F)
    ctx.floor("E-TAUT", "lookup / build situations", n, 8)
    ctx.explain("E-CACHE.dm: the results of the recursion are memoised in the direct-mapped apply cache, which holds uncounted "
                "edges: it compares and hashes all key parts, and every entry is cleared (under its lock) in pre_gc / before a "
                "reordering, so that no entry survives the collection of one of its nodes and is served for a recycled id.")
    edm.run(ctx, F)
    ctx.explain("E-WRAP.delegate: the multi-threaded function types forward the non-recursive operations (constructors, eval, "
                "sat_count, pick_cube*) to the sequential type: the item of the same name with the parameters in order.")
    nd = eeval.check_mt_delegations(ctx, F)
    ctx.floor("E-WRAP.delegate", "forwarding methods of the MT function types", nd, 15)
    substrate.run(ctx, F, dm=False)
    ctx.not_decided = "the default value of variables missing from eval's arguments, behaviour under memory exhaustion and parallel scheduling"
