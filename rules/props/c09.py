"""C09 ZBDD set-family operations: wiring"""
import elevels
import substrate
import edm
import etaut
import ector
import ecof
import eeval
import eshort
import ecache
import ereduce
import eunits
import ewrap
import kinds
import eskip
import estep

LEVEL = "E-WRAP over BooleanVecSet"


def run(ctx):
    F = ctx.facts("ws")
    ctx.explain("E-WRAP: union/intsec/diff/subset0/subset1/change_edge of ZBDDFunction and ZBDDFunctionMT are "
                "interpreted over symbolic operands (apply_union = or, apply_intsec = and, apply_diff(a,b) = a \\ b, "
                "subset::<VAL> with VAL 0/1/-1 = subset0/subset1/change) and compared with the set operation they "
                "are named for; the Boolean view (and/or/xor/imp_strict/nand/nor/equiv/imp/ite/not) likewise.")
    kinds.wrappers(ctx, F, "zbdd", [kinds.BVS, kinds.BF], 30)
    ctx.explain("E-UNITS: no variable number meets a level number (both are u32) in the rules crate(s).")
    nfn, _ = eunits.run(ctx, F, crates=("oxidd_rules_zbdd",))
    ctx.floor("E-UNITS", "function bodies analysed", nfn, 100)
    n = ereduce.run(ctx, F, kinds=("zbdd",))
    ctx.floor("E-TABLE.reduce", "abstract situations of the ZBDD reduce functions", n, 40)
    ctx.explain("E-CACHE: in this kind's algorithm functions the apply-cache key of every insertion equals the key "
                "of the lookup, the memoised value is the returned value, hit and miss paths agree, tags are disjoint.")
    n = ecache.run(ctx, F, crates=("oxidd_rules_zbdd::",))
    ctx.floor("E-CACHE", "cache-using algorithm functions", n, 5)
    ecache.check_hit_equals_miss(ctx, F, crates=("oxidd_rules_zbdd::",))
    ctx.explain("E-TABLE.shortcut: the shortcut prefix (equal/constant operands, delegations) of apply_ite and of the "
                "ZBDD set operations is interpreted for all operand tuples over {constants, x, y, z} up to the cache "
                "lookup; every shortcut taken must denote the operation.")
    n = eshort.run(ctx, F, kinds=("zbdd",))
    ctx.floor("E-TABLE.shortcut", "shortcut situations interpreted", n, 20)
    ctx.explain("E-TABLE.step: the recursive (Shannon expansion) step is interpreted on structured abstract operands -- inner nodes "
                "with opaque or nested children in every relative level configuration (and every complement-tag "
                "combination for BCDDs); recursive calls are builtins with the meaning of the callee, reduce yields a node. "
                "The returned edge must denote the operation for all values of atoms and decision variables, the new "
                "node must respect the variable order, and a cache entry must be valid for its key.")
    n = estep.run(ctx, F, kinds=("zbdd",))
    estep.check_zbdd_restrict_base(ctx, F)
    etaut.check_restrict_base_loop(ctx, F)
    ctx.floor("E-TABLE.step", "situations of the recursive step (set operations, subset0/subset1/change, apply_ite, restrict)", n, 250)
    ctx.explain("E-TABLE.skip: DiagramRules::skipped_cofactor of every kind (override or trait default) is interpreted and must "
                "yield the cofactors of an edge w.r.t. a variable above its node under the kind's semantics of a skipped level "
                "(don't-care; zero-suppressed for ZBDDs); level_swap splits children below the lower level through it.")
    n = eskip.run(ctx, F)
    ctx.floor("E-TABLE.skip", "interpreted skipped-cofactor cases", n, 20)
    ctx.explain("E-EVAL: eval_edge is interpreted in two single steps -- one iteration of the argument loop (the entry of "
                "var_to_level(var) ends up holding an encoding of the value that does not depend on its previous content: "
                "the value given last counts; other entries untouched; ZBDD: the counter of true variables is kept exact) and "
                "one call of `inner` (recurses once into the child for the stored value -- true: first, false: last, "
                "unknown: middle -- with the same table; complement flag / counter handed down correctly; terminals "
                "yield their value), plus the initial call and the multi-threaded delegation.")
    n = eeval.run(ctx, F, only=("zbdd",))
    ctx.floor("E-EVAL", "interpreted eval situations", n, 12)
    ctx.explain("E-TABLE.cof: DiagramRules::cofactors (driven through its iterator's own next) and DiagramRules::cofactor (override "
                "or trait default) are interpreted on a node whose children carry every tag combination, for every incoming "
                "tag: the i-th result is the i-th child with the incoming tag applied (the builtin the step rules assume); "
                "cofactors_node / cofactors_edge hand out cofactor 0, 1[, 2] of the edge's own tag and node, None for terminals.")
    n = ecof.run(ctx, F, only=("zbdd",))
    ctx.floor("E-TABLE.cof", "interpreted cofactor situations", n, 3)
    ctx.explain("E-TABLE.ctor: f_edge / t_edge / u_edge / constant_edge / var_edge / not_var_edge of the function types (ST and "
                "MT) are interpreted and must build the constant terminal resp. a node created at var_to_level(var) whose "
                "children are (true, false) / (1, 0) / (true, unknown, false) in that order (BCDD: (T, !T) behind an untagged "
                "edge; ZBDD: (tautology(level + 1), Empty) as the first node of its chain); the default not_var is not(var).")
    n = ector.run(ctx, F, only=("zbdd",))
    ctx.floor("E-TABLE.ctor", "interpreted constructor bodies", n, 5)
    ector.check_zbdd_var_chain(ctx, F)
    ctx.explain("E-TAUT: ZBDDCache::tautology(level) returns the chain entry covering exactly the levels from `level` down "
                "(Base beyond the last level); post_reorder_mut (run on init, add_vars and after reordering) starts the chain "
                "with Base, walks the levels bottom-up and appends node(level; prev, prev) per level, then stores the chain.")
    n = etaut.run(ctx, F)
    ctx.floor("E-TAUT", "lookup / build situations", n, 8)
    ctx.explain("E-CACHE.dm: the results of the recursion are memoised in the direct-mapped apply cache, which holds uncounted "
                "edges: it compares and hashes all key parts, and every entry is cleared (under its lock) in pre_gc / before a "
                "reordering, so that no entry survives the collection of one of its nodes and is served for a recycled id.")
    edm.run(ctx, F)
    ctx.explain("E-WRAP.delegate: the multi-threaded function types forward the non-recursive operations (constructors, eval, "
                "sat_count, pick_cube*) to the sequential type: the item of the same name with the parameters in order.")
    nd = eeval.check_mt_delegations(ctx, F)
    ctx.floor("E-WRAP.delegate", "forwarding methods of the MT function types", nd, 15)
    substrate.run(ctx, F, dm=False)
    ctx.explain("E-LEVELS: Manager::levels() (forward, backward and mixed iteration) and Manager::level(no) of both managers pair "
                "every level number with that level's unique table (interpreted on a four-level model).")
    nlv = elevels.run(ctx, F)
    ctx.floor("E-LEVELS", "interpreted iteration / access situations", nlv, 16)
    ctx.not_decided = "consistency after add_vars beyond the cache events and the rebuilt tautology chain"
