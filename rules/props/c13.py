"""C13 Cube picking"""
import substrate
import eevent
import epick
import eunits
import epost

LEVEL = "E-TABLE.pick + E-UNITS"


def run(ctx):
    F = ctx.facts("ws")
    ctx.explain("E-UNITS: pick_cube returns a vector indexed by variable number while the diagram is walked by level; "
                "every var<->level conversion in the rules crates must go through var_to_level/level_to_var with "
                "arguments of the declared unit (a swapped conversion is invisible under involutive orders).")
    nfn, nsites = eunits.run(ctx, F, crates=("oxidd_rules_bdd", "oxidd_rules_zbdd"))
    ctx.floor("E-UNITS", "function bodies analysed", nfn, 250)
    ctx.explain("E-TABLE.pick: one step of pick_cube_dd_edge::inner and pick_cube_dd_set_edge::inner (BDD and BCDD) is "
                "interpreted on structured abstract nodes: forced branches (a false child) are taken without consulting "
                "the choice / literal, otherwise the choice function is called exactly once resp. the literal's polarity "
                "decides; the literal set handed to the recursion is the remainder (never the false child; literals "
                "below skipped negative literals are kept); the result puts the sub-cube on the branch taken.")
    n = epick.run(ctx, F)
    ctx.explain("E-TABLE.pick (ZBDD): one step of the ZBDD pick_cube_edge::inner / pick_cube_dd_edge::inner on node(level; hi, lo): "
                "hi == lo is a don't care (no choice; entry None / node (sub, sub)), lo == Empty forces true, otherwise the "
                "choice decides once; the entry written is level_to_var(level); the dd variant returns the sub-cube itself on "
                "the lo branch (zero-suppressed variable) and node(level; sub, Empty) on the hi branch.")
    nz = epick.run_zbdd(ctx, F)
    nz += epick.run_zbdd_set(ctx, F)
    ctx.explain("E-TABLE.pick.literal: the BCDD add_literal_to_cube (a builtin of the step rules) is interpreted for sub in {x, !x, "
                "true} and both polarities: the result denotes (v | !v) & sub for all values, is created at the given level and "
                "keeps the complement-edge normal form. E-TABLE.pick.uniform: the choice closure of pick_cube_uniform_edge "
                "takes the then-branch iff rng < count(then) / (count(then) + count(else)) over the cofactors of the current "
                "node, both counts over num_levels and the same cache.")
    na = epick.check_add_literal(ctx, F)
    ctx.floor("E-TABLE.pick.literal", "add_literal_to_cube situations", na, 6)
    nu = epick.check_uniform(ctx, F)
    ctx.floor("E-TABLE.pick.uniform", "oracle paths of the choice closure", nu, 2)
    ctx.floor("E-TABLE.pick", "ZBDD situations of the cube-picking step", nz, 60)
    ctx.explain("E-POST.mapusers: pick_cube_uniform weights its choices with model counts; the count cache's map (whose keys are "
                "kind-specific: BCDDs fold the complement tag in) is touched only by SatCountCache and sat_count_edge::inner.")
    epost.check_count_cache_users(ctx, F)
    ctx.floor("E-TABLE.pick", "abstract situations of the cube-picking step", n, 80)
    ctx.explain("E-EVENT: the count cache that weights uniform picking is keyed by node ids and cleared when (gc_count, vars) "
                "changes: Manager::reorder and Manager::gc of both managers bump the gc epoch on every path (node ids are "
                "recycled by level swaps even when the node count does not shrink). E-POST: SatCountCache::clear_if_invalid "
                "compares both.")
    eevent.check_manager(ctx, F, "oxidd_manager_index")
    eevent.check_manager(ctx, F, "oxidd_manager_pointer")
    epost.check_clear_if_invalid(ctx, F)
    substrate.run(ctx, F, dm=True)
    ctx.not_decided = "that the result implies the function, don't-care minimality, statistical uniformity"
