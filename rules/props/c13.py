"""C13 Cube picking"""
import epick
import eunits
import epost

LEVEL = "E-TABLE.pick + E-UNITS"


def run(ctx):
    F = ctx.facts("ws")
    ctx.explain("E-UNITS: pick_cube returns a vector indexed by variable number while the diagram is walked by level; "
                "every var<->level conversion in the rules crates must go through var_to_level/level_to_var with "
                "arguments of the declared unit (a swapped conversion is invisible under involutive orders).")
    nfn, nsites = eunits.run(ctx, F, crates=("oxidd_rules_bdd", "oxidd_rules_zbdd"))
    ctx.floor("E-UNITS", "function bodies analysed", nfn, 250)
    ctx.explain("E-TABLE.pick: one step of pick_cube_dd_edge::inner and pick_cube_dd_set_edge::inner (BDD and BCDD) is "
                "interpreted on structured abstract nodes: forced branches (a false child) are taken without consulting "
                "the choice / literal, otherwise the choice function is called exactly once resp. the literal's polarity "
                "decides; the literal set handed to the recursion is the remainder (never the false child; literals "
                "below skipped negative literals are kept); the result puts the sub-cube on the branch taken.")
    n = epick.run(ctx, F)
    ctx.explain("E-TABLE.pick (ZBDD): one step of the ZBDD pick_cube_edge::inner / pick_cube_dd_edge::inner on node(level; hi, lo): "
                "hi == lo is a don't care (no choice; entry None / node (sub, sub)), lo == Empty forces true, otherwise the "
                "choice decides once; the entry written is level_to_var(level); the dd variant returns the sub-cube itself on "
                "the lo branch (zero-suppressed variable) and node(level; sub, Empty) on the hi branch.")
    nz = epick.run_zbdd(ctx, F)
    ctx.floor("E-TABLE.pick", "ZBDD situations of the cube-picking step", nz, 18)
    ctx.explain("E-POST.mapusers: pick_cube_uniform weights its choices with model counts; the count cache's map (whose keys are "
                "kind-specific: BCDDs fold the complement tag in) is touched only by SatCountCache and sat_count_edge::inner.")
    epost.check_count_cache_users(ctx, F)
    ctx.floor("E-TABLE.pick", "abstract situations of the cube-picking step", n, 80)
    ctx.not_decided = "that the result implies the function, don't-care minimality, statistical uniformity"
