"""C13 Cube picking"""
import eunits

LEVEL = "E-UNITS on the rules crates"


def run(ctx):
    F = ctx.facts("ws")
    ctx.explain("E-UNITS: pick_cube returns a vector indexed by variable number while the diagram is walked by level; "
                "every var<->level conversion in the rules crates must go through var_to_level/level_to_var with "
                "arguments of the declared unit (a swapped conversion is invisible under involutive orders).")
    nfn, nsites = eunits.run(ctx, F, crates=("oxidd_rules_bdd", "oxidd_rules_zbdd"))
    ctx.floor("E-UNITS", "function bodies analysed", nfn, 250)
    ctx.not_decided = "that the result implies the function, don't-care minimality, statistical uniformity"
