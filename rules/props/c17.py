"""C17 Unique-table hash set"""
import ecount
import eraw

LEVEL = "E-RAW"


def run(ctx):
    F = ctx.facts("ws")
    ctx.explain("E-RAW over linear_hashtbl::raw (MIR): inventory of all writes to the free-slot counter against the "
                "reviewed writer table; every `free += 1` is paired with a store of S::FREE; in retain the flag guarding "
                "tombstone->FREE conversions is only defined from `status == S::FREE` and guards every conversion; "
                "`free -= 1` only under `status != TOMBSTONE`; Drain::drop sweeps the slot iterator to exhaustion "
                "storing FREE on every path (drain() accounts all slots as free); a function replacing the slot array "
                "assigns the counter on every path; the probe loops are guarded by `len == 0` / reserve(1). These are "
                "necessary conditions of `free <= #FREE slots`, on which termination of every lookup rests.")
    eraw.run(ctx, F)
    ctx.floor("E-RAW", "free-counter writers checked", ctx.rule_counts.get("E-RAW.inventory", [0])[0], 6)
    ctx.explain("E-COUNT.underflow: no unsigned local that starts at the literal 0 is only ever decremented (it would underflow at its "
                "first update); detector checked against a built-in positive example on every run.")
    ecount.run(ctx, F, ('linear_hashtbl',))
    ctx.not_decided = "set semantics over arbitrary operation sequences and table sizes (single operations are decided from all well-formed 4-slot states), iteration exactness, rehashing / growth"
