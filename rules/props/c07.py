"""C07 Concurrent = sequential: the structural part (lock order, happens-before edges, hand-over moves)"""
import ecanon
import eeval
import edm
import efreelist
import elin
import elock
import kinds
import eevent
import edbg
import esort

LEVEL = "E-LOCK + E-FREELIST + E-CACHE.dm + E-LIN/E-WRAP on the parallel code"


def run(ctx):
    F = ctx.facts("ws")
    ctx.explain("E-LOCK.order: a lock-order graph over lock classes (manager rwlock, level mutexes, store state, terminal "
                "state, gc signal, cache entries, arcslab pages, bubble-sort state) is built from every acquisition and "
                "the locks acquired (transitively, through resolved callees, oxidd trait impls and closures) while a "
                "guard is live; it must be acyclic, and two locks of one class may be held only by oxidd-reorder. "
                "E-LOCK.ordering: the atomic operations of the reference-count/lock protocols use at least the "
                "orderings of the frozen table (Release decrement, Acquire load/fence before freeing, Acquire/Release "
                "for TryLock and the cache spin lock). E-LOCK.rc: try_remove_node re-reads the count under the level "
                "lock. E-LOCK.sendsync: every unsafe impl Send/Sync bounds its type parameters. E-FREELIST: local free "
                "lists are moved, not copied, into the shared state. E-CACHE.dm: the cache never blocks on the "
                "operation path and stays locked between pre_gc and post_gc. E-LIN on the parallel recursors; E-WRAP: "
                "the multi-threaded function types reach the same algorithm instances as the sequential ones.")
    elock.run_lock_order(ctx, F)
    elock.run_orderings(ctx, F)
    elock.run_rc_under_lock(ctx, F)
    elock.run_send_sync(ctx, F)
    efreelist.run(ctx, F)
    edbg.run(ctx, F)
    ctx.explain("E-PERM.blocked: the position-blocking protocol of the concurrent bubble sort (workers restructure adjacent "
                "levels in parallel): a typestate analysis along every path through the swap loop shows 'a worker at i holds exactly "
                "{i, i+1}'.")
    esort.check_blocked(ctx, F)
    ctx.explain("E-EVENT (gc protocol): a collection may run while other threads operate under the shared manager lock; "
                "what keeps them apart is the bracket try_lock -> epoch bump -> pre_gc (cache locked) -> level sweeps -> "
                "terminal sweep -> post_gc (cache unlocked) -> unlock, on every path, in both managers.")
    eevent.check_manager(ctx, F, "oxidd_manager_index")
    eevent.check_manager(ctx, F, "oxidd_manager_pointer")
    edm.run(ctx, F)
    st = elin.run(ctx, F, crates=("oxidd_rules_bdd::recursor", "oxidd_rules_zbdd::recursor", "oxidd_manager_index::workers",
                                  "oxidd_manager_pointer::workers"), skip_guard_table=True)
    ctx.floor("E-LIN", "recursor / worker bodies analysed", st["bodies"], 10)
    kinds.wrappers(ctx, F, "bdd", [kinds.BF, kinds.BFQ], 30)
    kinds.wrappers(ctx, F, "bcdd", [kinds.BF, kinds.BFQ], 30)
    kinds.wrappers(ctx, F, "zbdd", [kinds.BF, kinds.BVS], 30)
    ctx.explain("E-WRAP.delegate: the multi-threaded function types forward the non-recursive operations (constructors, eval, "
                "sat_count, pick_cube*) to the sequential type: the item of the same name with the parameters in order.")
    nd = eeval.check_mt_delegations(ctx, F)
    ctx.floor("E-WRAP.delegate", "forwarding methods of the MT function types", nd, 15)
    ctx.explain("E-LIN.rcconst: every comparison of a value derived from a reference count (load_rc, release, fetch_sub, the "
                "terminal store's atomic load) with an integer constant in the manager crates and arcslab is one of the 11 "
                "reviewed thresholds (== / != 1: only the unique table holds the node; != 2 in try_remove_node: the table and the "
                "reference being released).")
    nr = elin.check_rc_thresholds(ctx, F)
    ctx.floor("E-LIN.rcconst", "reference-count comparisons inventoried", nr, 11)
    ctx.explain("E-FREELIST.mark: SharedStoreState::allocated (the slot array's high-water mark; chunks below it belong to "
                "threads that may still be filling them) is written by get_slot_from_shared only, with a value computed by an "
                "addition: it never moves back.")
    nm = efreelist.check_allocation_mark(ctx, F)
    ctx.floor("E-FREELIST.mark", "writers of the allocation mark", nm, 1)
    ctx.explain("E-PERM.acquire: in the concurrent bubble sort a position is taken for a further swap (blocked.insert) only on the "
                "`false` edge of a dominating blocked.contains test: two swaps never restructure a common level.")
    na = esort.check_acquire_guard(ctx, F)
    ctx.floor("E-PERM.acquire", "position acquisitions in the worker loop", na, 2)
    ctx.explain("E-FREELIST.link: return_preallocated (session end) is interpreted on a model (chunk size 8): the unused rest of "
                "the chunk is linked slot by slot in front of the thread's own free list, the head (slot index + TERMINALS) is "
                "published, an empty list is not, the node-count delta is moved out, the allocation mark is untouched.")
    nl = efreelist.check_return_links(ctx, F)
    ctx.floor("E-FREELIST.link", "interpreted hand-back situations", nl, 5)
    ctx.explain("E-LIN.rcguard: try_remove_node (both managers) reaches the removal from the unique table only with previous "
                "count 2, prepared manager and re-read count 1. E-CANON.ptrsplit: in the pointer-based manager terminal "
                "operations lie on the !is_inner() edge and inner-node operations on the is_inner() edge.")
    nrg = elin.check_removal_guards(ctx, F)
    ctx.floor("E-LIN.rcguard", "try_remove_node bodies", nrg, 2)
    nps = ecanon.check_ptr_split(ctx, F)
    ctx.floor("E-CANON.ptrsplit", "is_inner() branches of the pointer-based manager", nps, 6)
    ctx.explain("E-REC.depth: every splitting method of the ParallelRecursors decrements remaining_depth, the switch to the "
                "sequential recursor happens exactly at 0, and the SequentialRecursor never asks for a switch.")
    nrd = elock.run_recursor_depth(ctx, F)
    ctx.floor("E-REC.depth", "recursor obligations", nrd, 6)
    nse = efreelist.check_sentinel(ctx, F)
    ctx.floor("E-FREELIST.sentinel", "sentinel constants", nse, 7)
    ctx.explain("E-FREELIST.binding: the thread-local free list / chunk cursor / count delta are touched only on the edge where "
                "`current_store` equals this store's address (add_node, free_slot).")
    nsb = efreelist.check_store_binding(ctx, F)
    ctx.floor("E-FREELIST.binding", "current_store tests", nsb, 2)
    ctx.not_decided = ("equivalence to a sequential execution over schedules, lost updates in the lock-free lists, "
                       "deadlock freedom beyond lock order (condvar protocols): behavioural, not claimed")
