"""C19 C API: handle typestate and wiring"""
import ecount
import effi
import edddmp
import elin
import eunits

LEVEL = "E-FFI"


def run(ctx):
    F = ctx.facts("ws")
    ctx.explain("E-FFI over oxidd-ffi-c (HIR + MIR): every exported oxidd_{bdd,bcdd,zbdd}_<op> calls the Rust operation "
                "it is named for and passes its operands in declared order; bdd.rs/bcdd.rs/zbdd.rs export the same "
                "operations for the traits they share; from_raw on handle types appears only as the argument of "
                "ManuallyDrop::new in get() (borrow) or of drop() in *_unref (release); no entry point other than the "
                "documented oxidd_zbdd_make_node consumes a borrowed handle, and that one takes ownership of hi and lo "
                "unconditionally; From<AllocResult>/From<Option> map failure to INVALID and get() maps a null handle to "
                "Err(OutOfMemory); op1/op2/op3 validate every operand. E-LIN and E-UNITS on the FFI crate.")
    effi.run(ctx, F)
    ctx.explain("E-FFI.fresh: an exported function returning a handle never returns one of its argument handles (the "
                "caller unrefs argument and result separately), except the *_ref functions, which take a reference.")
    n = effi.check_fresh_handles(ctx, F)
    effi.check_zip_before_filter(ctx, F)
    ctx.explain("E-FFI.thin: exported functions (and the closures defined in them) take no data-dependent decision of their "
                "own besides null checks and Option/Result propagation; 7 reviewed exceptions.")
    n = effi.check_thin_wrappers(ctx, F)
    ctx.floor("E-FFI.thin", "exported function bodies and their closures", n, 250)
    ctx.floor("E-FFI.fresh", "exported functions taking and returning a handle", n, 50)
    ctx.explain("E-FFI.siblings: oxidd_bdd_X, oxidd_bcdd_X and oxidd_zbdd_X are the same program up to the kind's names "
                "(normalised type-checked HIR); a member that deviates from its siblings does something the Rust API call "
                "they all wrap does not. Reviewed deviations are listed with their reason.")
    ns = effi.check_siblings(ctx, F)
    ctx.floor("E-FFI.siblings", "groups of sibling C functions, conversions and constants compared", ns, 78)
    ctx.explain("E-FFI.status: C functions reporting success as bool return false only on the error side and true only on the success "
                "side of handle_err_or_init, which itself maps Ok to Some and Err to None.")
    ctx.explain("E-DDDMP.callers: every caller of dddmp::import in the workspace (CLI, C and Python bindings) that derives the variable "
                "mapping from the header reads support_var_order() (support variables by level position), never support_vars().")
    edddmp.check_import_callers(ctx, F)
    nst = effi.check_status_results(ctx, F)
    ctx.floor("E-FFI.status", "status-returning functions and the helper", nst, 2)
    ctx.explain("E-FFI.empty: the EMPTY / INVALID constants the C interface hands out for 'no result' have zero length / "
                "capacity fields and null pointers (C callers test exactly these fields).")
    effi.check_empty_consts(ctx, F)
    st = elin.run(ctx, F, crates=("oxidd_ffi_c",), skip_guard_table=True)
    ctx.floor("E-LIN", "FFI bodies analysed", st["bodies"], 300)
    eunits.run(ctx, F, crates=("oxidd_ffi_c",))
    ctx.explain("E-FFI.null: where a C-facing function tests a raw pointer with is_null(), the operations that dereference or "
                "take ownership through pointers (from_raw_parts, Box::from_raw, CStr::from_ptr, read / write) lie on the "
                "non-null edge of the test.")
    nn = effi.check_null_guards(ctx, F)
    ctx.floor("E-FFI.null", "C-facing functions with a null test", nn, 12)
    ctx.explain("E-COUNT.underflow: no unsigned local that starts at the literal 0 is only ever decremented (it would underflow at its "
                "first update); detector checked against a built-in positive example on every run.")
    ecount.run(ctx, F, ('oxidd_ffi_c',))
    ctx.not_decided = "call-sequence equivalence with the Rust API; final node counts"
