"""C03 Stored diagram well-formed; level bookkeeping"""
import elevels
import eswap
import evlm
import ewho
import ereduce
import ecanon
import estep
import eunits
import eraw
import esort
import eskip

LEVEL = "E-UNITS"
CRATES = ("oxidd_core", "oxidd_manager_index", "oxidd_manager_pointer", "oxidd_reorder", "oxidd_rules_bdd",
          "oxidd_rules_zbdd", "oxidd_rules_mtbdd", "oxidd_rules_tdd")


def run(ctx):
    F = ctx.facts("ws")
    ctx.explain("E-UNITS: VarNo and LevelNo are both u32 aliases; the declared signatures (aliases unexpanded) give "
                "every parameter/result a unit, which is propagated through all function bodies of the managers, "
                "oxidd-reorder and the rules crates; any arithmetic, comparison, argument or `let` that mixes a "
                "variable number with a level number is reported (they coincide only under the identity order). "
                "E-UNITS.pre: inside level_swap, level numbers stored in nodes (stale during lazy renumbering) may only "
                "meet the `_pre` parameters, level views are addressed by positions only, new lower-level nodes are "
                "created with the upper level's stale number and nodes kept at the new upper level are relabelled "
                "with the lower level's stale number.")
    nfn, nsites = eunits.run(ctx, F, crates=CRATES)
    ctx.floor("E-UNITS", "function bodies analysed", nfn, 900)
    ctx.floor("E-UNITS", "unit-carrying sites checked", nsites, 800)
    eunits.check_level_swap(ctx, F)
    n = ereduce.run(ctx, F)
    ctx.floor("E-TABLE.reduce", "abstract situations of the reduce functions", n, 400)
    ecanon.check_level_swap_order(ctx, F)
    ctx.explain("E-CANON (key, funnel, sites): node equality and hash read the children only (level numbers are rewritten in "
                "place during reordering), nodes are created through get_or_insert under the looked-up hash.")
    ecanon.run(ctx, F)
    ctx.explain("E-TABLE.step (ZBDD restrict): the one reviewed site that creates nodes without going through reduce (restrict_base's "
                "don't-care loop) is interpreted with its own get_or_insert: every node it files has a non-empty hi edge (decided "
                "semantically for the results of the recursive calls), sits in the view of its own level, and the result denotes the "
                "restricted family.")
    nzr = estep.run(ctx, F, kinds=("zbdd",), parts=("restrict",))
    ctx.floor("E-TABLE.step", "ZBDD restrict / restrict_base situations", nzr, 100)
    ctx.explain("E-WHO: the operations that temporarily break the level invariants (swap, take, insert_unchecked, "
                "get_or_insert_unchecked, set_child, set_level) are called only from oxidd-reorder; node-removal "
                "primitives only from gc / try_remove_node / level views, gated by reorder_gc_prepared / "
                "allow_node_removal; level_swap uses the unchecked insertions only.")
    ewho.run(ctx, F)
    ctx.explain("E-RAW: the open-addressing table behind every level's unique table keeps its probe chains intact "
                "(free-slot accounting, tombstones, retain's wrap-around flag): a cut chain makes a stored node "
                "unfindable, after which a second node with identical children is created on the same level.")
    eraw.run(ctx, F)
    ctx.explain("E-PERM: the level-permutation step of set_var_order moves whole levels (with their stale numbers relabelled "
                "afterwards); its loop invariant keeps populated levels from crossing without node restructuring.")
    esort.run(ctx, F)
    ctx.explain("E-PERM.relabel: the parallel relabelling pass visits the levels whose nodes carry a stale number (work list "
                "built from level positions): otherwise nodes keep a stored level that disagrees with the table they sit in. "
                "E-TABLE.skip: level_swap splits children below the lower level with the kind's skipped-level cofactors.")
    esort.check_relabel_worklist(ctx, F)
    eskip.run(ctx, F)
    ctx.explain("E-VLM: the managers' variable <-> level maps stay mutually inverse permutations: extend appends the identity "
                "(new variables at the new bottom levels), swap_levels exchanges exactly two levels in both vectors, lookups read "
                "their own vector; the index-based and the pointer-based manager's copies are the same program.")
    nv = evlm.run(ctx, F)
    ctx.floor("E-VLM", "interpreted VarLevelMap situations", nv, 38)
    ctx.explain("E-TABLE.swap: the per-node body of level_swap is interpreted on a model store (BDD, BCDD with all tag "
                "combinations, ZBDD): a node without a child on the lower level moves down unchanged; otherwise it keeps its "
                "identity, is relabelled and re-inserted at the new upper level with children rebuilt from the grand-cofactors "
                "through the kind's own reduce, denoting the same function of (a, b, sub-functions) under the new order; an "
                "equal node of the old upper level is reused; dead old children are removed exactly once.")
    nsw = eswap.run(ctx, F)
    ctx.floor("E-TABLE.swap", "interpreted level_swap situations", nsw, 80)
    ecanon.check_id_split(ctx, F)
    ctx.explain("E-LEVELS: Manager::levels() (forward, backward and mixed iteration) and Manager::level(no) of both managers pair "
                "every level number with that level's unique table (interpreted on a four-level model).")
    nlv = elevels.run(ctx, F)
    ctx.floor("E-LEVELS", "interpreted iteration / access situations", nlv, 16)
    ctx.explain("E-PERM.relabel.cond: update_levels / update_levels_seq relabel every level whose position differs from the stale "
                "number of its nodes (the parallel variant may skip empty levels only).")
    esort.check_relabel_conditions(ctx, F)
    ctx.not_decided = ("uniqueness/reducedness of the stored graph after arbitrary histories; minimal node counts; "
                       "the then-edge regularity of complement-edge nodes (planned tag-lattice rule)")
