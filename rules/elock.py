"""E-LOCK: lock order, memory orderings, Send/Sync bounds (DESIGN 3.6)"""
import re

from lib import cfg

# ---- lock classes --------------------------------------------------------------------------------------------------
GUARD_CLASSES = [
    (r"MutexGuard<.*LevelViewSet<", "level"),                    # one mutex per level of the unique table
    (r"MutexGuard<.*SharedStoreState>", "store.state"),
    (r"MutexGuard<.*GCSignal>", "gc_signal"),
    (r"MutexGuard<.*terminal_manager::dynamic::State<", "terminal.state"),
    (r"MutexGuard<.*arcslab::PageList<", "arcslab.pages"),
    (r"MutexGuard<.*concurrent_bubble_sort::State<", "bubble_sort.state"),
    (r"rwlock::RwLock(Shared|Exclusive|Read|Write)?Guard<|rwlock::.*Guard<", "manager"),
    (r"oxidd_cache::direct::EntryGuard<", "cache.entry"),
]
# calls that return a view holding a level mutex
LEVEL_VIEW_CALLS = (r"oxidd_core::Manager::level$", r"oxidd_core::Manager::level_unchecked$",
                    r"manager::Manager::<.*>::level$", r"manager::Manager::<.*>::level_unchecked$")


def guard_class(ty):
    for rx, cls in GUARD_CLASSES:
        if re.search(rx, ty):
            return cls
    return None


def acquisitions(F, fid, m, B):
    """(block, class, guard local or None, blocking?)"""
    out = []
    for i, t in B.calls():
        if m["blocks"][i]["c"]:
            continue
        cn = cfg.callee_name(t) or ""
        d = t["d"]
        dty = m["locals"][d]["ty"] if isinstance(d, int) else ""
        cls = guard_class(dty)
        if cls and re.search(r"::(lock|shared|exclusive|try_lock)$", cn):
            out.append((i, cls, d, not cn.endswith("try_lock")))
        elif any(re.search(rx, cn) for rx in LEVEL_VIEW_CALLS):
            out.append((i, "level", d if isinstance(d, int) else None, True))
    return out


def held_region(m, B, blk, guard):
    """blocks executed while the guard obtained in `blk` is alive (until it is dropped / moved away)"""
    t = m["blocks"][blk]["t"]
    start = t.get("t")
    if start is None:
        return set()
    # locals that hold the guard: follow moves
    holders = {guard}
    changed = True
    while changed:
        changed = False
        for b in m["blocks"]:
            for s in b["s"]:
                if "lhs" in s and isinstance(s["lhs"], int) and s["lhs"] not in holders and s["rv"]["k"] == "use":
                    p = cfg.op_place(s["rv"]["op"])
                    if isinstance(p, int) and p in holders and "mv" in s["rv"]["op"]:
                        holders.add(s["lhs"])
                        changed = True
    region = set()
    st = [start]
    while st:
        x = st.pop()
        if x in region or m["blocks"][x]["c"]:
            continue
        region.add(x)
        tt = m["blocks"][x]["t"]
        if tt["k"] == "drop" and isinstance(tt["p"], int) and tt["p"] in holders:
            continue   # released here
        if tt["k"] == "call":
            cn = cfg.callee_name(tt) or ""
            if re.search(r"mem::(drop|forget)$", cn) and tt["a"] and cfg.op_place(tt["a"][0]) in holders:
                continue
        st.extend(B.succ[x])
    return region


def run_lock_order(ctx, F, rule="E-LOCK.order"):
    crates = ("oxidd_manager_index", "oxidd_manager_pointer", "oxidd_cache", "oxidd_reorder", "oxidd_core", "arcslab",
              "oxidd_rules_bdd", "oxidd_rules_zbdd", "oxidd_rules_mtbdd", "oxidd_rules_tdd", "oxidd")
    bodies = {}
    acq = {}
    for fid, m in F.mir.items():
        if not fid.startswith(crates):
            continue
        B = cfg.Body(m)
        bodies[fid] = B
        a = acquisitions(F, fid, m, B)
        if a:
            acq[fid] = a
    # trait method -> impls
    impls_of = {}
    for fid, r in F.fns.items():
        ti = (r.get("impl") or {}).get("trait_item")
        # unresolved trait calls are mapped to the workspace impls of *oxidd* traits only (Manager, LevelView,
        # ManagerRef, ApplyCache, ...); std traits such as Iterator have unrelated impls
        if ti and ti.startswith("oxidd"):
            impls_of.setdefault(ti, []).append(fid)
    # callee ids per function
    def callees(fid):
        out = []
        m = F.mir[fid]
        B = bodies[fid]
        for i, t in B.calls():
            f = t["f"]
            did = f.get("rdid") or f.get("did")
            decl = f.get("def")
            if did in F.mir:
                out.append((i, [did]))
            elif decl in impls_of:
                out.append((i, [x for x in impls_of[decl] if x in bodies]))
        # closures created here are (approximately) invoked where they are created / passed on
        for i in B.reach:
            for s_ in m["blocks"][i]["s"]:
                if "lhs" in s_ and s_["rv"]["k"] == "aggr" and s_["rv"].get("ak") == "closure":
                    cid = s_["rv"].get("closure")
                    if cid in bodies:
                        out.append((i, [cid]))
        return out
    # transitive acquisition summaries (bounded depth)
    memo = {}

    def summary(fid, depth):
        key = (fid, depth)
        if key in memo:
            return memo[key]
        memo[key] = set()
        s = {c for _, c, _, blocking in acq.get(fid, []) if blocking}
        if depth > 0 and fid in bodies:
            for _, tg in callees(fid):
                for g in tg:
                    s |= summary(g, depth - 1)
        memo[key] = s
        return s
    edges = {}
    for fid, lst in sorted(acq.items()):
        m = F.mir[fid]
        B = bodies[fid]
        cl = callees(fid)
        for blk, cls, guard, blocking in lst:
            if guard is None:
                continue
            region = held_region(m, B, blk, guard)
            for blk2, cls2, g2, blocking2 in lst:
                if blk2 in region and blk2 != blk and blocking2:
                    edges.setdefault((cls, cls2), set()).add(F.nice(fid))
            for i, tg in cl:
                if i in region:
                    for g in tg:
                        for c2 in summary(g, 3):
                            edges.setdefault((cls, c2), set()).add("%s -> %s" % (F.nice(fid), F.nice(g)))
    ctx.floor(rule, "functions acquiring locks", len(acq), 20)
    ctx.floor(rule, "lock-order edges observed", len(edges), 2)
    graph = {}
    for (a, b), fs in edges.items():
        if a != b:
            graph.setdefault(a, set()).add(b)
    ctx.note("lock-order graph: " + "; ".join("%s -> %s" % (a, sorted(bs)) for a, bs in sorted(graph.items())))
    # self edges: two locks of one class held at once
    for (a, b), fs in sorted(edges.items()):
        if a == b:
            ok = a == "level" and all(re.search(r"oxidd_reorder::|manager::Manager<.*>::(levels|level)|LevelIter", f) or
                                      "oxidd_reorder" in f for f in fs)
            ctx.ob(rule, "%s:self:%s" % (rule, a), ok,
                   "two `%s` locks are held at once in %s; only oxidd-reorder may hold two level locks (upper before "
                   "lower), anything else can deadlock against it" % (a, sorted(fs)[:3]))
    # cycles
    color = {}
    cyc = []

    def dfs(u, path):
        color[u] = 1
        for v in sorted(graph.get(u, ())):
            if color.get(v) == 1:
                cyc.append(path[path.index(v):] + [v] if v in path else [u, v])
            elif v not in color:
                dfs(v, path + [v])
        color[u] = 2
    for u in sorted(graph):
        if u not in color:
            dfs(u, [u])
    for c in cyc:
        where = []
        for x, y in zip(c, c[1:]):
            where.append("%s->%s in %s" % (x, y, sorted(edges.get((x, y), ["?"]))[0]))
        ctx.ob(rule, "%s:cycle:%s" % (rule, ">".join(c)), False,
               "lock-order cycle %s: %s; two threads taking these locks in opposite order deadlock"
               % (" -> ".join(c), "; ".join(where)))
    ctx.ob(rule, rule + ":acyclic", not cyc, "the lock-order graph over %d classes is acyclic" % len(graph))
    for (a, b), fs in sorted(edges.items()):
        ctx.ob(rule + ".edge", "%s.edge:%s->%s" % (rule, a, b), True, "held %s while acquiring %s in %s" % (a, b, sorted(fs)[:2]),
               nontrivial=True)


# ---- memory orderings ----------------------------------------------------------------------------------------------------
STRENGTH = {"Relaxed": 0, "Release": 1, "Acquire": 1, "AcqRel": 2, "SeqCst": 3}
ORDERINGS = [
    # (function name regex, atomic op, acceptable orderings, why)
    (r"fixed_arity::NodeWithLevel<.*> as .*(NodeBase|AtomicRefCounted)>::release$", "fetch_sub", ("Release", "AcqRel", "SeqCst"),
     "the decrement must publish all prior accesses to the node before another thread frees it"),
    (r"arcslab::ArcItem<T> as arcslab::AtomicRefCounted>::release$", "fetch_sub", ("Release", "AcqRel", "SeqCst"),
     "terminal reference counts: same protocol as nodes"),
    (r"arcslab::<arcslab::ArcSlab<.*>>::release$", "fetch_sub", ("Release", "AcqRel", "SeqCst"), "slab reference count"),
    (r"arcslab::<arcslab::ArcSlab<.*>>::release$", "fence", ("Acquire", "AcqRel", "SeqCst"), "acquire before freeing the slab"),
    (r"manager::Store<.*>>::drop_unique_table_edge$", "fence", ("Acquire", "AcqRel", "SeqCst"),
     "between observing rc == 1 and freeing the slot"),
    (r"terminal_manager::dynamic::.*TerminalManager>::release$", "fetch_sub", ("Release", "AcqRel", "SeqCst"), "terminal rc"),
    (r"terminal_manager::dynamic::.*TerminalManager>::gc::\{closure#0\}$", "load", ("Acquire", "SeqCst"), "rc test before freeing a terminal"),
    (r"util::TryLock>::try_lock$", "swap", ("Acquire", "AcqRel", "SeqCst"), "lock acquisition"),
    (r"util::TryLock>::unlock$", "store", ("Release", "SeqCst"), "lock release"),
    (r"oxidd_cache::util::RawMutex as .*RawMutex>::(lock|try_lock)$", "swap", ("Acquire", "AcqRel", "SeqCst"), "lock acquisition"),
    (r"oxidd_cache::util::RawMutex as .*RawMutex>::unlock$", "store", ("Release", "SeqCst"), "lock release"),
]
# callers that pass an ordering to load_rc
LOAD_RC = [(r"manager::LevelViewSet<.*>>::gc::\{closure#0\}$", ("Acquire", "SeqCst")),
           (r"as oxidd_core::Manager>::try_remove_node$", ("Acquire", "SeqCst"))]


def ordering_of(m, op):
    p = cfg.op_place(op)
    if isinstance(p, int):
        for b in m["blocks"]:
            for s in b["s"]:
                if "lhs" in s and s["lhs"] == p and s["rv"]["k"] == "aggr" and s["rv"].get("adt", "").endswith("atomic::Ordering"):
                    return s["rv"]["variant"]
                if "lhs" in s and s["lhs"] == p and s["rv"]["k"] == "use":
                    return ordering_of(m, s["rv"]["op"])
    if isinstance(op, dict) and "c" in op and "Ordering" in op["c"]:
        return op["c"].rsplit("::", 1)[-1]
    return None


def run_orderings(ctx, F, rule="E-LOCK.ordering"):
    nice = {F.nice(fid): fid for fid in F.mir}
    n = 0
    for rx, opname, okset, why in ORDERINGS:
        hits = [(nm, fid) for nm, fid in nice.items() if re.search(rx, nm)]
        if not ctx.anchor(rule, "atomic site /%s/ %s" % (rx[:60], opname), bool(hits)):
            continue
        for nm, fid in sorted(hits):
            m = F.mir[fid]
            B = cfg.Body(m)
            found = False
            for i, t in B.calls():
                cn = cfg.callee_name(t) or ""
                if cn.endswith("::" + opname) and "atomic" in cn:
                    found = True
                    n += 1
                    o = None
                    for a in t["a"]:
                        o = ordering_of(m, a) or o
                    ctx.ob(rule, "%s:%s:%s" % (rule, nm, opname), o in okset,
                           "%s (%s): %s uses Ordering::%s, needs one of %s: %s. A weaker ordering compiles and passes "
                           "every test on x86 but lets another thread free/reuse the memory before the accesses are visible"
                           % (nm, F.where(fid), opname, o, list(okset), why))
            ctx.ob(rule, "%s:%s:%s:present" % (rule, nm, opname), found,
                   "%s (%s): expected atomic operation `%s` not found" % (nm, F.where(fid), opname), nontrivial=False)
    for rx, okset in LOAD_RC:
        hits = [(nm, fid) for nm, fid in nice.items() if re.search(rx, nm)]
        if not ctx.anchor(rule, "load_rc caller /%s/" % rx[:50], bool(hits)):
            continue
        for nm, fid in sorted(hits):
            m = F.mir[fid]
            B = cfg.Body(m)
            for i, t in B.calls():
                if (cfg.callee_name(t) or "").endswith("::load_rc") or (cfg.callee_decl(t) or "").endswith("::load_rc"):
                    n += 1
                    o = None
                    for a in t["a"]:
                        o = ordering_of(m, a) or o
                    ctx.ob(rule, "%s:%s:load_rc" % (rule, nm), o in okset,
                           "%s (%s): the reference count is read with Ordering::%s before the node is freed; needs %s to "
                           "synchronise with the Release decrements" % (nm, F.where(fid), o, list(okset)))
    ctx.floor(rule, "atomic operations checked against the ordering table", n, 12)


# ---- rc test under the level lock -------------------------------------------------------------------------------------------
def run_rc_under_lock(ctx, F, rule="E-LOCK.rc"):
    for fid, r in sorted(F.fns.items()):
        if not fid.endswith("::try_remove_node") or (r.get("impl") or {}).get("trait") != "oxidd_core::Manager" \
                or not fid.startswith(("oxidd_manager_index", "oxidd_manager_pointer")):
            continue
        m = F.mir[fid]
        B = cfg.Body(m)
        locks = [i for i, t in B.calls() if (cfg.callee_name(t) or "").endswith("Mutex::<R, T>::lock")]
        loads = [i for i, t in B.calls() if (cfg.callee_name(t) or "").endswith("::load_rc") or (cfg.callee_decl(t) or "").endswith("::load_rc")]
        removes = [i for i, t in B.calls() if re.search(r"LevelViewSet::<.*>::remove$", cfg.callee_name(t) or "")]
        ok = bool(locks and loads and removes) and all(any(B.dominates(l, x) for l in locks) for x in loads) and \
            all(any(B.dominates(x, rm) for x in loads) for rm in removes)
        ctx.ob(rule, "%s:%s" % (rule, F.nice(fid)), ok,
               "%s (%s): the reference count must be re-read under the level's mutex before the node is removed from the "
               "unique table (another thread may have found and cloned it in between)" % (F.nice(fid), F.where(fid)))


# ---- unsafe impl Send / Sync ---------------------------------------------------------------------------------------------------
PHANTOM_PARAMS = {
    # type parameter -> why it needs no Send/Sync bound
    "R": "diagram rules: a marker type that is never instantiated (PhantomData)",
    "RC": "rules constructor: marker type",
    "ET": "edge tag of the pointer-based Function: bounded through the node type (NC::T: Send + Sync)",
    "M": "bounded through <M as Manager>::Edge: Send",
}


def run_send_sync(ctx, F, rule="E-LOCK.sendsync"):
    n = 0
    for r in sorted(F.impls, key=lambda x: x["id"]):
        tr = r.get("trait") or ""
        if not r.get("unsafe") or not tr.endswith(("marker::Send", "marker::Sync")) or r.get("exp"):
            continue
        if not r["id"].startswith(("oxidd", "arcslab", "linear_hashtbl", "hugealloc")):
            continue
        mm = re.search(r"<(.*)>$", r["self"])
        params = [p.strip() for p in (mm.group(1).split(",") if mm else [])]
        params = [p for p in params if p and not p.startswith("'") and re.fullmatch(r"[A-Z][A-Za-z]{0,3}", p)]
        lacking = []
        for p in params:
            okp = any(re.search(r"(^|[<( ])%s(:| as |>::).*marker::(Send|Sync)" % re.escape(p), q) for q in r["preds"])
            if not okp and p not in PHANTOM_PARAMS:
                lacking.append(p)
        n += 1
        key = "%s:%s:%s" % (rule, tr.rsplit("::", 1)[1], r["self"].split("<")[0])
        ctx.ob(rule, key, not lacking,
               "unsafe impl %s for %s (%s:%s) has no Send/Sync bound on type parameter(s) %s: the type can be shared "
               "between threads although a component is not thread-safe"
               % (tr.rsplit("::", 1)[1], r["self"], r["file"], r["line"], lacking))
    ctx.floor(rule, "unsafe impl Send/Sync items", n, 25)


def run_recursor_depth(ctx, F, rule="E-REC.depth"):
    """The parallel recursion of the apply algorithms splits into tasks while `remaining_depth` is positive and continues
    sequentially afterwards.  Termination of the splitting (and no underflow of the counter) rests on three facts read
    from MIR of both recursor modules: every splitting method of `ParallelRecursor` decrements `remaining_depth` by one
    and never increments it; `ParallelRecursor::should_switch_to_sequential` is `remaining_depth == 0`; the
    `SequentialRecursor` never asks for a switch (constant false -- `true` would make the algorithms call themselves
    forever)."""
    n = 0
    for crate in ("oxidd_rules_bdd", "oxidd_rules_zbdd"):
        base = crate + "::recursor::"
        par = [f for f in F.mir if f.startswith(base + "mt::") and "{closure" not in f]
        if not ctx.anchor(rule, "%s ParallelRecursor methods" % crate, len(par) >= 4):
            continue
        bad = []
        nsplit = 0
        for fid in sorted(par):
            m = F.mir[fid]
            B = cfg.Body(m)
            name = fid.rsplit("::", 1)[-1]
            writes = []
            for i in sorted(B.reach):
                b = m["blocks"][i]
                if b["c"]:
                    continue
                for s in b["s"]:
                    lhs = s.get("lhs")
                    if isinstance(lhs, dict) and lhs.get("p") and str(lhs["p"][-1]).startswith(".remaining_depth@"):
                        rv = s.get("rv") or {}
                        if rv.get("k") in ("bin", "checked") and cfg.const_int(rv.get("b")) == 1:
                            writes.append(rv["o"][:3])
                        elif rv.get("k") == "use":
                            writes.append("mv")
                        else:
                            writes.append("?")
            joins = [i for i, t in B.calls() if re.search(r"::join$|::join3$|::scope$", cfg.callee_name(t) or "")]
            if name == "should_switch_to_sequential":
                # return value: Eq(remaining_depth, 0)
                ok = any((s.get("rv") or {}).get("k") == "bin" and s["rv"].get("o") == "Eq" and cfg.const_int(s["rv"].get("b")) == 0
                         and s.get("lhs") == 0 for b in m["blocks"] for s in b["s"])
                n += 1
                ctx.ob(rule, "%s:%s:switch" % (rule, crate), ok,
                       "%s (%s): %s" % (F.nice(fid), F.where(fid), "switches exactly when remaining_depth == 0" if ok else
                                        "does not return `remaining_depth == 0`"))
            elif joins:
                nsplit += 1
                subs = [w for w in writes if w == "Sub"]
                others = [w for w in writes if w not in ("Sub", "mv")]
                if len(subs) < 1 or others:
                    bad.append("%s (%s): writes %r to remaining_depth" % (name, F.where(fid), writes))
        n += 1
        ctx.ob(rule, "%s:%s:decrement" % (rule, crate), not bad and nsplit >= 3,
               "%s ParallelRecursor: %s" % (crate, "%d splitting methods, each decrements remaining_depth" % nsplit if not bad and nsplit >= 3
                                            else "; ".join(bad) or "only %d splitting methods found" % nsplit))
        seq = [f for f in F.mir if f.startswith(base) and "::mt::" not in f and f.endswith("::should_switch_to_sequential")]
        for fid in seq:
            m = F.mir[fid]
            ok = any(s.get("lhs") == 0 and (s.get("rv") or {}).get("k") == "use" and str(((s.get("rv") or {}).get("op") or {}).get("c")) == "false"
                     for b in m["blocks"] for s in b["s"])
            n += 1
            ctx.ob(rule, "%s:%s:sequential" % (rule, crate), ok,
                   "%s (%s): %s" % (F.nice(fid), F.where(fid), "never asks for a switch" if ok else
                                    "does not return the constant false: an algorithm that switches to the sequential recursor "
                                    "would switch again, forever"))
    return n
