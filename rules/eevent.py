"""E-EVENT: bracketing / must-pass-through / ordering rules over MIR control flow (DESIGN 3.5)."""
import re

from lib import cfg

EVT = "oxidd_core::ManagerEventSubscriber::"


class M:
    """matcher of an 'event' inside one MIR body"""

    def __init__(self, label, call=None, store=None, value=None):
        self.label = label
        self.call = call      # regex on the callee (resolved or declared)
        self.store = store    # field name (`.name@`) stored to
        self.value = value    # required constant (int) stored

    def blocks(self, B):
        out = []
        for i in sorted(B.reach):
            b = B.blocks[i]
            if b["c"]:
                continue
            if self.call is not None:
                t = b["t"]
                if t["k"] == "call":
                    n1 = cfg.callee_name(t) or ""
                    n2 = cfg.callee_decl(t) or ""
                    if re.search(self.call, n1) or re.search(self.call, n2):
                        out.append(i)
            if self.store is not None:
                for s in b["s"]:
                    if "lhs" in s and isinstance(s["lhs"], dict):
                        if any(e.startswith("." + self.store + "@") for e in s["lhs"]["p"][-1:]):
                            if self.value is None or (s["rv"]["k"] == "use" and cfg.const_int(s["rv"]["op"]) == self.value):
                                out.append(i)
        return out


def chain(ctx, F, rule, fid, matchers, what, same_block_order=True):
    """every event of matcher k+1 is dominated by an event of matcher k, and every event of matcher k is
    post-dominated (w.r.t. normal returns) by an event of matcher k+1"""
    m = F.mir.get(fid)
    nice = F.nice(fid)
    if not ctx.anchor(rule, nice, m is not None):
        return
    B = cfg.Body(m)
    where = F.where(fid)
    found = []
    for mt in matchers:
        bl = mt.blocks(B)
        found.append(bl)
        ctx.ob(rule, "%s:%s:has:%s" % (rule, nice, mt.label), bool(bl),
               "%s (%s): event `%s` of the %s sequence is missing" % (nice, where, mt.label, what))
    for k in range(len(matchers) - 1):
        a, b = found[k], found[k + 1]
        if not a or not b:
            continue
        la, lb = matchers[k].label, matchers[k + 1].label
        okd = all(any(B.dominates(x, y) and (x != y or same_block_order) for x in a) for y in b)
        okp = all(any(B.postdominates(y, x) for y in b) for x in a)
        ctx.ob(rule, "%s:%s:%s<%s" % (rule, nice, la, lb), okd and okp,
               "%s (%s): in the %s sequence `%s` must come before `%s` on every path (%s)"
               % (nice, where, what, la, lb,
                  "not dominated" if not okd else "a path from `%s` reaches the return without `%s`" % (la, lb)))


def field_test_branches(B, field):
    """blocks that branch on the value of `(*self).field`: returns list of (block, false_succ, true_succ)"""
    out = []
    for i in sorted(B.reach):
        b = B.blocks[i]
        t = b["t"]
        if t["k"] != "switch":
            continue
        p = cfg.op_place(t["d"])
        if not isinstance(p, int):
            continue
        # find def of p in this block
        neg = False
        src = None
        defs = {}
        for s in b["s"]:
            if "lhs" in s and isinstance(s["lhs"], int):
                defs[s["lhs"]] = s["rv"]
        cur = p
        for _ in range(4):
            rv = defs.get(cur)
            if rv is None:
                break
            if rv["k"] == "un" and rv["o"] == "Not":
                neg = not neg
                cur = cfg.op_place(rv["a"])
            elif rv["k"] == "use":
                q = cfg.op_place(rv["op"])
                if isinstance(q, dict) and any(e.startswith("." + field + "@") for e in q["p"]):
                    src = q
                    break
                cur = q
            else:
                break
            if not isinstance(cur, int):
                if isinstance(cur, dict) and any(e.startswith("." + field + "@") for e in cur["p"]):
                    src = cur
                break
        if src is None:
            continue
        zero = None
        for v, tb in t["t"]:
            if int(v) == 0:
                zero = tb
        other = t["o"]
        if zero is None:
            continue
        fls, tru = (zero, other) if not neg else (other, zero)
        out.append((i, fls, tru))
    return out


def no_path_avoiding(B, start, targets, avoid):
    """True iff every path from `start` to any of `targets` passes a block in `avoid`"""
    seen = set()
    st = [start]
    tg = set(targets)
    av = set(avoid)
    while st:
        x = st.pop()
        if x in seen or x in av:
            continue
        if x in tg:
            return False
        seen.add(x)
        st.extend(B.succ[x])
    return True


def manager_fn(F, crate, name):
    for fid, r in F.fns.items():
        imp = r.get("impl") or {}
        if fid.startswith(crate + "::manager::") and fid.endswith("::" + name) and imp.get("trait") == "oxidd_core::Manager" \
                and "::Manager<" in imp.get("self", ""):
            return fid
    return None


def check_manager(ctx, F, crate, rule="E-EVENT"):
    """gc / reorder / add_vars* brackets of one manager crate (oxidd_manager_index | oxidd_manager_pointer)"""
    tag = crate.split("_")[-1]
    rule_ = "%s.%s" % (rule, tag)
    # ---- gc -----------------------------------------------------------------------------------------
    fid = manager_fn(F, crate, "gc")
    if ctx.anchor(rule_, crate + " Manager::gc", fid is not None):
        B = cfg.Body(F.mir[fid])
        where = F.where(fid)
        nice = "%s::Manager::gc" % crate
        trylock = M("gc_ongoing.try_lock", call=r"TryLock::try_lock$").blocks(B)
        bump = M("gc_count.fetch_add", call=r"atomic::Atomic.*::fetch_add$").blocks(B)
        pre = M("pre_gc", call=re.escape(EVT) + "pre_gc$").blocks(B)
        post = M("post_gc", call=re.escape(EVT) + "post_gc$").blocks(B)
        sweeps = M("level.gc", call=r"LevelViewSet::<.*>::gc$|TerminalManager::gc$|TerminalManager.*::gc$").blocks(B)
        unlock = M("gc_ongoing.unlock", call=r"TryLock::unlock$").blocks(B)
        ctx.ob(rule_, rule_ + ":gc:events", all([trylock, bump, pre, post, sweeps, unlock]) and len(sweeps) >= 2,
               "%s (%s): expected events try_lock/fetch_add/pre_gc/level gc + terminal gc/post_gc/unlock, found %s"
               % (nice, where, dict(trylock=trylock, bump=bump, pre=pre, post=post, sweeps=sweeps, unlock=unlock)))
        if all([trylock, bump, pre, post, sweeps, unlock]):
            ctx.ob(rule_, rule_ + ":gc:try_lock-first",
                   all(B.dominates(trylock[0], x) for x in bump + pre + sweeps),
                   "%s (%s): gc_ongoing.try_lock must dominate the collection (two concurrent collections otherwise)" % (nice, where))
            # polarity of the try_lock test: the collection runs on the "lock obtained" edge, the early return on the other
            m_ = F.mir[fid]
            pol = None
            tb = m_["blocks"][trylock[0]]["t"]
            cur, val, neg = tb.get("t"), cfg.place_local(tb["d"]) if tb.get("d") is not None else None, False
            for _ in range(4):
                if cur is None or val is None:
                    break
                blk = m_["blocks"][cur]
                for st_ in blk["s"]:
                    rv_ = st_.get("rv") or {}
                    if rv_.get("k") == "un" and rv_.get("o") == "Not" and cfg.op_place(rv_.get("a", rv_.get("op"))) == val and isinstance(st_.get("lhs"), int):
                        val, neg = st_["lhs"], not neg
                    elif rv_.get("k") == "use" and cfg.op_place(rv_.get("op")) == val and isinstance(st_.get("lhs"), int):
                        val = st_["lhs"]
                tt = blk["t"]
                if tt["k"] == "switch" and cfg.op_place(tt["d"]) == val:
                    zero = [b_ for v_, b_ in tt["t"] if int(v_) == 0]
                    if len(zero) == 1:
                        t_edge, f_edge = (zero[0], tt["o"]) if neg else (tt["o"], zero[0])     # edge taken when try_lock() returned true / false
                        r_t = B.reachable_from(t_edge, avoid=(cur,))
                        r_f = B.reachable_from(f_edge, avoid=(cur,))
                        pol = all(s_ in r_t and s_ not in r_f for s_ in sweeps)
                    break
                cur = tt.get("t") if tt["k"] == "goto" else None
            ctx.ob(rule_, rule_ + ":gc:try_lock-polarity", pol is True,
                   "%s (%s): %s" % (nice, where, "the collection runs exactly when gc_ongoing.try_lock() succeeded" if pol else
                                    "the sweep does not sit on the edge where gc_ongoing.try_lock() returned true: the collection is skipped when "
                                    "the lock is free (nothing is ever collected) or runs without the lock"))
            ctx.ob(rule_, rule_ + ":gc:epoch-bump", all(any(B.dominates(x, s) for x in bump) for s in sweeps),
                   "%s (%s): gc_count must be bumped before any node is removed (count caches key on it)" % (nice, where))
            tests = field_test_branches(B, "reorder_gc_prepared")
            after_sweep = lambda t: any(B.can_reach(s_, t[0]) for s_ in sweeps)
            pre_tests = [t for t in tests if any(B.dominates(t[0], p) for p in pre) and not after_sweep(t)]
            post_tests = [t for t in tests if any(B.dominates(t[0], p) for p in post) and after_sweep(t)]
            okpre = bool(pre_tests) and all(
                no_path_avoiding(B, t[1], sweeps, pre) for t in pre_tests) and \
                all(any(B.dominates(t[0], s) for t in pre_tests) or any(B.dominates(p, s) for p in pre) for s in sweeps)
            ctx.ob(rule_, rule_ + ":gc:pre_gc-before-sweep", okpre,
                   "%s (%s): unless a reordering prepared it (reorder_gc_prepared), pre_gc must run before any level or "
                   "terminal is swept: the apply cache holds uncounted edges" % (nice, where))
            exits = B.exits()
            okpost = bool(post_tests) and all(no_path_avoiding(B, t[1], exits, post) for t in post_tests) and \
                all(any(B.dominates(s, t[0]) for t in post_tests) or True for s in sweeps)
            # the post test must come after the sweeps
            okpost = okpost and all(any(B.can_reach(s, t[0]) for t in post_tests) for s in sweeps)
            ctx.ob(rule_, rule_ + ":gc:post_gc-after-sweep", okpost,
                   "%s (%s): unless inside a reordering, post_gc must run after the sweep on every path to the return "
                   "(the cache entries stay locked otherwise)" % (nice, where))
            ctx.ob(rule_, rule_ + ":gc:unlock", all(any(B.postdominates(u, s) for u in unlock) for s in sweeps),
                   "%s (%s): gc_ongoing.unlock must post-dominate the sweep" % (nice, where))
    # ---- reorder -------------------------------------------------------------------------------------
    fid = manager_fn(F, crate, "reorder")
    if ctx.anchor(rule_, crate + " Manager::reorder", fid is not None):
        B = cfg.Body(F.mir[fid])
        nice = "%s::Manager::reorder" % crate
        where = F.where(fid)
        tests = field_test_branches(B, "reorder_gc_prepared")
        calls_f = M("f(self)", call=r"FnOnce::call_once$").blocks(B)
        ok_nested = False
        if tests and len(calls_f) == 2:
            t0 = tests[0]
            # the prepared branch calls f and returns without any event
            evs = M("any event", call=re.escape(EVT)).blocks(B)
            nested_call = [c for c in calls_f if B.dominates(t0[2], c) or t0[2] == c]
            if nested_call:
                reach = B.reachable_from(t0[2])
                ok_nested = not (reach & set(evs)) and t0[0] == min(t[0] for t in tests)
        ctx.ob(rule_, rule_ + ":reorder:nested", ok_nested,
               "%s (%s): a nested reorder call (reorder_gc_prepared already set) must only run the closure and return; "
               "it must not finalise the outer reordering" % (nice, where))
        seq = [M("pre_gc", call=re.escape(EVT) + "pre_gc$"),
               M("reorder_gc_prepared=true", store="reorder_gc_prepared", value=1),
               M("pre_reorder", call=re.escape(EVT) + "pre_reorder$"),
               M("pre_reorder_mut", call=re.escape(EVT) + "pre_reorder_mut$"),
               M("post_reorder", call=re.escape(EVT) + "post_reorder$"),
               M("post_reorder_mut", call=re.escape(EVT) + "post_reorder_mut$"),
               M("reorder_gc_prepared=false", store="reorder_gc_prepared", value=0),
               M("post_gc", call=re.escape(EVT) + "post_gc$"),
               M("reorder_count+=1", store="reorder_count")]
        chain(ctx, F, rule_, fid, seq, "reorder")
        # the closure runs between pre_reorder_mut and post_reorder
        pm = seq[3].blocks(B)
        po = seq[4].blocks(B)
        mid = [c for c in calls_f if pm and po and any(B.dominates(x, c) for x in pm) and any(B.dominates(c, y) for y in po)]
        ctx.ob(rule_, rule_ + ":reorder:closure-inside", bool(mid),
               "%s (%s): the reordering closure must run between pre_reorder_mut and post_reorder" % (nice, where))
        gcb = M("gc_count+=1", call=r"atomic::Atomic.*::get_mut$|atomic::Atomic.*::fetch_add$").blocks(B)
        pg = seq[7].blocks(B)
        ctx.ob(rule_, rule_ + ":reorder:epoch-bump", bool(gcb) and bool(pg) and all(any(B.postdominates(g, p) for g in gcb) for p in pg),
               "%s (%s): gc_count must be bumped by reorder (nodes are removed without Manager::gc; count caches key on it)"
               % (nice, where))
    # ---- add_vars ------------------------------------------------------------------------------------
    fid = manager_fn(F, crate, "add_vars")
    if ctx.anchor(rule_, crate + " Manager::add_vars", fid is not None):
        seq = [M("pre_reorder", call=re.escape(EVT) + "pre_reorder$"),
               M("pre_reorder_mut", call=re.escape(EVT) + "pre_reorder_mut$"),
               M("unique_table.resize_with", call=r"Vec::<T, A>::resize_with$"),
               M("var_level_map.extend", call=r"VarLevelMap::extend$"),
               M("var_name_map.add_unnamed", call=r"VarNameMap::add_unnamed$"),
               M("post_reorder", call=re.escape(EVT) + "post_reorder$"),
               M("post_reorder_mut", call=re.escape(EVT) + "post_reorder_mut$")]
        chain(ctx, F, rule_, fid, seq, "add_vars")
    fid = manager_fn(F, crate, "add_named_vars")
    if ctx.anchor(rule_, crate + " Manager::add_named_vars", fid is not None):
        seq = [M("pre_reorder", call=re.escape(EVT) + "pre_reorder$"),
               M("pre_reorder_mut", call=re.escape(EVT) + "pre_reorder_mut$"),
               M("scopeguard::guard", call=r"^scopeguard::guard$"),
               M("var_name_map.add_named", call=r"VarNameMap::add_named$")]
        # post-dominance does not hold for add_named (the guard runs on drop): dominance only
        m = F.mir[fid]
        B = cfg.Body(m)
        nice = "%s::Manager::add_named_vars" % crate
        prev = None
        for mt in seq:
            bl = mt.blocks(B)
            ctx.ob(rule_, "%s:%s:has:%s" % (rule_, nice, mt.label), bool(bl),
                   "%s (%s): event `%s` missing" % (nice, F.where(fid), mt.label))
            if prev and bl and prev[1]:
                ctx.ob(rule_, "%s:%s:%s<%s" % (rule_, nice, prev[0], mt.label),
                       all(any(B.dominates(x, y) for x in prev[1]) for y in bl),
                       "%s (%s): `%s` must come before `%s` (the scope guard must exist before names are added, so "
                       "that the level table is resized on every exit)" % (nice, F.where(fid), prev[0], mt.label))
            prev = (mt.label, bl)
        # the guard closure
        cl = [c for c in F.mir if c.startswith(fid + "::{closure#")]
        okc = False
        for c in cl:
            Bc = cfg.Body(F.mir[c])
            seqc = [M("unique_table.resize_with", call=r"Vec::<T, A>::resize_with$"),
                    M("var_level_map.extend", call=r"VarLevelMap::extend$"),
                    M("post_reorder", call=re.escape(EVT) + "post_reorder$"),
                    M("post_reorder_mut", call=re.escape(EVT) + "post_reorder_mut$")]
            if all(mt.blocks(Bc) for mt in seqc):
                okc = True
                chain(ctx, F, rule_, c, seqc, "add_named_vars scope guard")
        ctx.ob(rule_, "%s:%s:guard-body" % (rule_, nice), okc,
               "%s (%s): the scope guard must resize the unique table, extend the var/level map and emit "
               "post_reorder/post_reorder_mut" % (nice, F.where(fid)))
    fid = manager_fn(F, crate, "add_named_vars_from_map")
    if ctx.anchor(rule_, crate + " Manager::add_named_vars_from_map", fid is not None):
        seq = [M("pre_reorder", call=re.escape(EVT) + "pre_reorder$"),
               M("pre_reorder_mut", call=re.escape(EVT) + "pre_reorder_mut$"),
               M("unique_table.resize_with", call=r"Vec::<T, A>::resize_with$"),
               M("var_level_map.extend", call=r"VarLevelMap::extend$"),
               M("var_name_map = map", store="var_name_map"),
               M("post_reorder", call=re.escape(EVT) + "post_reorder$"),
               M("post_reorder_mut", call=re.escape(EVT) + "post_reorder_mut$")]
        # the function first delegates to add_named_vars when the map is non-empty; the chain concerns the rest
        m = F.mir[fid]
        B = cfg.Body(m)
        nice = "%s::Manager::add_named_vars_from_map" % crate
        found = [mt.blocks(B) for mt in seq]
        for mt, bl in zip(seq, found):
            ctx.ob(rule_, "%s:%s:has:%s" % (rule_, nice, mt.label), bool(bl),
                   "%s (%s): event `%s` missing" % (nice, F.where(fid), mt.label))
        for k in range(len(seq) - 1):
            a, b = found[k], found[k + 1]
            if a and b:
                ctx.ob(rule_, "%s:%s:%s<%s" % (rule_, nice, seq[k].label, seq[k + 1].label),
                       all(any(B.dominates(x, y) for x in a) for y in b) and
                       all(any(B.postdominates(y, x) for y in b) for x in a),
                       "%s (%s): `%s` must come before `%s` on every path" % (nice, F.where(fid), seq[k].label, seq[k + 1].label))


def check_manager_data_forwarding(ctx, F, rule="E-EVENT.forward"):
    """the manager-data structs of crate `oxidd` forward every subscriber event to every field"""
    n = 0
    for fid, r in sorted(F.fns.items()):
        imp = r.get("impl") or {}
        if imp.get("trait") != "oxidd_core::ManagerEventSubscriber" or not fid.startswith("oxidd::"):
            continue
        adt_name = imp["self"].split("<")[0]
        adt = F.adts.get(adt_name)
        if adt is None or not adt_name.endswith("ManagerData"):
            continue
        nfields = len(adt["variants"][0]["fields"])
        ev = fid.rsplit("::", 1)[1]
        B = cfg.Body(F.mir[fid])
        names = [(cfg.callee_decl(t) or cfg.callee_name(t) or "") for _, t in B.calls()]
        evs = [x.rsplit("::", 1)[1] for x in names if x.startswith(EVT)]
        same = [x for x in evs if x == ev]
        other = [x for x in evs if x != ev]
        n += 1
        ctx.ob(rule, "%s:%s::%s" % (rule, adt_name, ev), len(same) == nfields and not other,
               "%s::%s (%s) forwards `%s` %d time(s) (and %s) but the struct has %d subscriber field(s): an event that "
               "does not reach the apply cache / ZBDD cache leaves stale entries"
               % (adt_name, ev, F.where(fid), ev, len(same), other or "nothing else", nfields))
    return n


def check_gc_sweep_order(ctx, F, crate, rule="E-EVENT"):
    """Manager::gc sweeps the inner-node levels before the terminals: a terminal referenced only by dead inner nodes
    loses its last reference during the level sweep, so a terminal sweep that runs first (or in between) leaves
    unreferenced terminals behind after the collection."""
    tag = crate.split("_")[-1]
    rule_ = "%s.%s" % (rule, tag)
    fid = manager_fn(F, crate, "gc")
    if not ctx.anchor(rule_, crate + " Manager::gc", fid is not None and fid in F.mir):
        return 0
    B = cfg.Body(F.mir[fid])
    levels = M("level.gc", call=r"LevelViewSet::<.*>::gc$").blocks(B)
    terms = M("terminal gc", call=r"TerminalManager::gc$|TerminalManager.*::gc$").blocks(B)
    terms = [t for t in terms if t not in levels]
    ok = bool(levels) and bool(terms) and not any(B.can_reach(t, l) and t != l for t in terms for l in levels) \
        and all(any(B.can_reach(l, t) for t in terms) for l in levels)
    ctx.ob(rule_, rule_ + ":gc:terminals-last", ok,
           "%s::Manager::gc (%s): %s" % (crate, F.where(fid),
                                         "every level sweep precedes the terminal sweep" if ok else
                                         "the terminal sweep must come after all level sweeps (found %d level / %d terminal "
                                         "sweep sites; a terminal sweep that can be followed by a level sweep keeps terminals "
                                         "alive that only dead inner nodes reference)" % (len(levels), len(terms))))
    return 1
