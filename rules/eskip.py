"""E-TABLE.skip: the cofactors of a skipped level, per diagram kind, and their use in level_swap.

`level_swap` rebuilds the nodes of two adjacent levels from the grandchildren of the upper level's nodes.  For a child
that has no node on the lower level it needs the cofactors of that child with respect to the *skipped* variable.
What a skipped level means is kind-specific: "does not depend on the variable" for BDD / BCDD / MTBDD / TDD, "no set
contains the variable" (hi cofactor = empty family) for ZBDDs.  `DiagramRules::skipped_cofactor` is interpreted for
every kind (own override or the trait default) on abstract edges below the skipped level; for each n the result must
denote the n-th cofactor of the edge's function under the kind's semantics.  And `level_swap` must obtain those
cofactors through `DiagramRules::skipped_cofactor` (a call next to its `DiagramRules::cofactors` call), not by
duplicating the child.
"""
import itertools

import estep
import ereduce
import tables
from estep import Spec, StepDomain, atom, snode, den, lab, ALG_BOOL, ALG_ZBDD, ALG_TVL, ALG_NUM
from ereduce import ETAG
from lib import cfg
from lib.interp import Edge, Enum, Interp, Opaque, Unrecognised, enumerate_runs
from tables import OK

DEFAULT = "oxidd_core::DiagramRules::skipped_cofactor"


def impl_fn(F, crate_prefix, rules_ty):
    for fid, r in F.fns.items():
        imp = r.get("impl") or {}
        if fid.endswith("::skipped_cofactor") and imp.get("trait", "").startswith("oxidd_core::DiagramRules") \
                and rules_ty in imp.get("self", "") and fid.startswith(crate_prefix):
            return fid
    return None


def kinds(F):
    P = Enum(ETAG + "::None")
    bt = Enum("oxidd_rules_bdd::complement_edge::BCDDTerminal")
    tvb, tvz, tvt = tables.BDD.term_values, tables.ZBDD.term_values, tables.TDD.term_values
    return [
        ("bdd", Spec(tables.BDD, ALG_BOOL, "", "oxidd_rules_bdd::simple", "oxidd_rules_bdd::simple::BDDOp",
                     lambda e, val: tvb[e.node[1].short]), "oxidd_rules_bdd::simple", "BDDRules", 2, None,
         [Edge(("T", Enum(tables.BDD.terminal_enum + "::True")), None)]),
        ("bcdd", Spec(ereduce.BCDD_KIND, ALG_BOOL, "", "oxidd_rules_bdd::complement_edge", "oxidd_rules_bdd::complement_edge::BCDDOp",
                      lambda e, val: 1, bcdd=True), "oxidd_rules_bdd::complement_edge", "BCDDRules", 2, P,
         [Edge(("T", bt), Enum(ETAG + "::Complemented"))]),
        ("zbdd", Spec(tables.ZBDD, ALG_ZBDD, "", "oxidd_rules_zbdd", "oxidd_rules_zbdd::ZBDDOp",
                      lambda e, val: tvz[e.node[1].short]), "oxidd_rules_zbdd", "ZBDDRules", 2, None,
         [Edge(("T", Enum(tables.ZBDD.terminal_enum + "::Base")), None), Edge(("T", Enum(tables.ZBDD.terminal_enum + "::Empty")), None)]),
        ("mtbdd", Spec(tables.MTBDD, ALG_NUM, "", "oxidd_rules_mtbdd", "oxidd_rules_mtbdd::MTBDDOp",
                       lambda e, val: tables.num_eval(e.node[1], val)), "oxidd_rules_mtbdd", "MTBDDRules", 2, None,
         [Edge(("T", ("sym", "c1")), None)]),
        ("tdd", Spec(tables.TDD, ALG_TVL, "", "oxidd_rules_tdd", "oxidd_rules_tdd::TDDOp",
                     lambda e, val: tvt[e.node[1].short]), "oxidd_rules_tdd", "TDDRules", 3, None,
         [Edge(("T", Enum(tables.TDD.terminal_enum + "::Unknown")), None)]),
    ]


def run(ctx, F, rule="E-TABLE.skip"):
    n = 0
    have_default = ctx.anchor(rule, DEFAULT, DEFAULT in F.hir)
    for name, spec, crate, rules_ty, arity, tag, terms in kinds(F):
        if not ctx.anchor(rule, "%s op enum" % name, spec.op_enum in F.adts):
            continue
        fid = impl_fn(F, crate.split("::")[0], rules_ty) or (DEFAULT if have_default else None)
        if fid is None or fid not in F.hir:
            ctx.ob(rule, "%s:%s" % (rule, name), False, "no skipped_cofactor for %s" % name)
            continue
        spec.always_levels = (1,)
        operands = [snode("e", 2, [atom("e%d" % i, tag) for i in range(arity)], tag)] + terms
        fails = []
        for e in operands:
            for k in range(arity):
                def mk(oracle):
                    return Interp(F, StepDomain(F, fid, spec, {}), oracle, max_depth=4)
                for trace, (status, val) in enumerate_runs(mk, lambda it: it.call_fn(fid, [Opaque("manager"), e, k])):
                    n += 1
                    sit = "%s skipped_cofactor(%s, %d)" % (name, lab(e), k)
                    if status != "ok":
                        fails.append("%s: %s %s" % (sit, status, val))
                        continue
                    if isinstance(val, Enum) and val.path == OK:
                        val = val.args[0]
                    if not isinstance(val, Edge):
                        fails.append("%s: result %r" % (sit, val))
                        continue
                    names = estep.atoms_of([e])
                    levels = [1, 2]
                    bad = None
                    alg = spec.alg
                    for avals in itertools.product(*[spec.atom_domain(a) for a in names]):
                        for b2 in range(alg.branches):
                            base = dict(zip(names, avals))
                            base["$levels"] = levels
                            base[("v", 2)] = b2
                            v_e = dict(base)
                            v_r = dict(base)
                            if alg.zs:
                                v_e[("v", 1)] = 1 if k == 0 else 0     # hi = variable present
                                v_r[("v", 1)] = 0
                            else:
                                v_e[("v", 1)] = k
                                v_r[("v", 1)] = 0
                            if not alg.same(den(spec, val, v_r), den(spec, e, v_e)):
                                bad = {x: y for x, y in base.items() if x != "$levels"}
                                break
                        if bad:
                            break
                    if bad:
                        fails.append("%s returns %s, which is not the %s cofactor of the edge's function w.r.t. a variable above "
                                     "its node (%s semantics of a skipped level), e.g. for %s"
                                     % (sit, lab(val), "first" if k == 0 else "%d-th" % k,
                                        "zero-suppressed" if alg.zs else "don't-care", bad))
        ctx.ob(rule, "%s:%s" % (rule, name), not fails,
               ("%s (%s): %d problem(s); first: %s" % (F.nice(fid), F.where(fid), len(fails), " || ".join(fails[:2]))) if fails else
               "%s: skipped_cofactor (%s) agrees with the kind's semantics of a skipped level" % (name, F.nice(fid)))
    # use in level_swap
    users = [fid for fid, m in F.mir.items() if fid.startswith("oxidd_reorder::level_swap") and
             any((cfg.callee_decl(t) or cfg.callee_name(t) or "").endswith("DiagramRules::cofactors") or
                 (cfg.callee_name(t) or "").endswith("::cofactors") for _, t in cfg.Body(m).calls())]
    if ctx.anchor(rule, "level_swap body that takes cofactors of the upper level's children", bool(users)):
        for fid in users:
            calls = [(cfg.callee_decl(t) or "") + "|" + (cfg.callee_name(t) or "")
                     for f2, m2 in F.mir.items() if f2 == fid or f2.startswith(fid + "::{closure")
                     for _, t in cfg.Body(m2).calls()]
            ok = any("skipped_cofactor" in c for c in calls)
            ctx.ob(rule + ".use", "%s.use:%s" % (rule, F.nice(fid)), ok,
                   "%s (%s): %s" % (F.nice(fid), F.where(fid),
                                    "children below the lower level are split with DiagramRules::skipped_cofactor" if ok else
                                    "takes DiagramRules::cofactors of children on the lower level but never "
                                    "DiagramRules::skipped_cofactor for children below it: a skipped level is treated as "
                                    "don't-care for every kind (wrong for zero-suppressed diagrams)"))
            n += 1
    return n
