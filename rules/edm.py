"""E-CACHE.dm: structural rules about the direct-mapped apply cache (oxidd-cache/src/direct.rs)"""
import re

from lib import cfg


def all_places(m):
    """every place mentioned in a MIR body: (block index, place, 'w' | 'r')"""
    def ops(o):
        if isinstance(o, dict):
            if "cp" in o:
                yield o["cp"]
            elif "mv" in o:
                yield o["mv"]
    for i, b in enumerate(m["blocks"]):
        for s in b["s"]:
            if "lhs" in s:
                yield i, s["lhs"], "w"
                rv = s["rv"]
                for k in ("op", "a", "b"):
                    if k in rv:
                        for p in ops(rv[k]):
                            yield i, p, "r"
                if "p" in rv:
                    yield i, rv["p"], "r"
                for o in rv.get("ops", []):
                    for p in ops(o):
                        yield i, p, "r"
        t = b["t"]
        if t["k"] == "call":
            for a in t["a"]:
                for p in ops(a):
                    yield i, p, "r"
            yield i, t["d"], "w"
        elif t["k"] == "switch":
            for p in ops(t["d"]):
                yield i, p, "r"
        elif t["k"] == "drop":
            yield i, t["p"], "r"


def fields_of(m, adt):
    out = set()
    for _, p, _ in all_places(m):
        if isinstance(p, dict):
            for e in p["p"]:
                if e.startswith(".") and e.endswith("@" + adt):
                    out.add(e[1:].split("@")[0])
    return out


def find_fn(F, pred):
    return [fid for fid, r in F.fns.items() if pred(fid, r)]


def run(ctx, F, rule="E-CACHE.dm"):
    ENTRY = "oxidd_cache::direct::Entry"
    # ---- comparator completeness ------------------------------------------------------------------
    gets = find_fn(F, lambda fid, r: fid.startswith("oxidd_cache::direct::") and fid.endswith("::get")
                   and "EntryGuard" in (r.get("impl") or {}).get("self", ""))
    if ctx.anchor(rule, "EntryGuard::get", len(gets) == 1):
        fid = gets[0]
        m = F.mir[fid]
        fs = fields_of(m, ENTRY)
        need = {"operands", "operator", "values", "data"}
        B = cfg.Body(m)
        ctx.ob(rule, rule + ":get-compares-all-key-parts", need <= fs,
               "EntryGuard::get (%s) reads the entry fields %s; a hit must compare the operand counts, every operand "
               "(data), the operator and the value counts: missing %s" % (F.where(fid), sorted(fs), sorted(need - fs)))
        # every comparison can miss: at least 4 conditional exits returning None before the hit path
        nnone = 0
        for i in B.reach:
            for s in m["blocks"][i]["s"]:
                if "lhs" in s and s["lhs"] == 0 and s["rv"]["k"] == "aggr" and s["rv"].get("variant") == "None":
                    nnone += 1
        ctx.ob(rule, rule + ":get-miss-exits", nnone >= 4,
               "EntryGuard::get (%s) has %d `return None` exits; the four key comparisons (operand counts, operands, "
               "numeric operands, operator/value counts) each need one" % (F.where(fid), nnone))
    # ---- bucket hashes operator and both operand kinds -----------------------------------------------
    bks = find_fn(F, lambda fid, r: fid.startswith("oxidd_cache::direct::") and fid.endswith("::bucket"))
    if ctx.anchor(rule, "DMApplyCache::bucket", len(bks) == 1):
        B = cfg.Body(F.mir[bks[0]])
        nh = sum(1 for _, t in B.calls() if (cfg.callee_decl(t) or "").endswith("hash::Hash::hash"))
        ctx.ob(rule, rule + ":bucket-hash", nh >= 3,
               "DMApplyCache::bucket (%s) hashes %d key components (operator, edge operands, numeric operands expected)"
               % (F.where(bks[0]), nh))
    # ---- pre_gc keeps every entry locked; post_gc unlocks ----------------------------------------------
    pre = find_fn(F, lambda fid, r: fid.startswith("oxidd_cache::direct::") and fid.endswith("::pre_gc"))
    post = find_fn(F, lambda fid, r: fid.startswith("oxidd_cache::direct::") and fid.endswith("::post_gc"))
    if ctx.anchor(rule, "DMApplyCache::pre_gc", len(pre) == 1):
        fid = pre[0]
        m = F.mir[fid]
        B = cfg.Body(m)
        drops = [i for i in sorted(B.reach) if m["blocks"][i]["t"]["k"] == "drop" and not m["blocks"][i]["c"]
                 and "EntryGuard" in m["blocks"][i]["t"]["ty"]]
        forgets = [i for i, t in B.calls() if (cfg.callee_decl(t) or "") == "std::mem::forget"
                   and any("EntryGuard" in g for g in t["f"].get("ga", []) if isinstance(g, str))]
        clears = [i for i, t in B.calls() if (cfg.callee_name(t) or "").endswith("::clear")]
        locks = [i for i, t in B.calls() if re.search(r"Entry<.*>::lock$|::lock$", cfg.callee_name(t) or "")]
        ctx.ob(rule, rule + ":pre_gc-keeps-locked", not drops and bool(forgets) and bool(locks),
               "DMApplyCache::pre_gc (%s): %s" % (F.where(fid),
               ("an EntryGuard is dropped (unlocking the entry) on a non-unwind path in bb%s; every entry must stay "
                "locked until post_gc so that nothing is inserted while nodes are collected" % drops) if drops else
               ("no lock()/mem::forget(guard) pair found" if not (forgets and locks) else
                "every entry is locked, cleared and its guard forgotten")))
        # the entry is cleared *through its guard*, i.e. while its lock is held: lock() dominates EntryGuard::clear()
        # dominates mem::forget(guard).  (Clearing first and locking in a second pass leaves a window in which a concurrent
        # operation re-fills an entry that then stays locked-in and uncleared across the collection.)
        gclears = [i for i, t in B.calls() if re.search(r"EntryGuard<.*>::clear$|EntryGuard::<.*>::clear$", cfg.callee_name(t) or "")]
        ok = bool(gclears) and all(any(B.dominates(c, f) and any(B.dominates(l, c) for l in locks) for c in gclears) for f in forgets)
        ctx.ob(rule, rule + ":pre_gc-clears", ok,
               "DMApplyCache::pre_gc (%s): the guard is forgotten on a path that did not clear the entry under its own lock (lock -> "
               "EntryGuard::clear -> forget): an entry inserted between a separate clearing pass and the locking pass survives the "
               "collection with edges to freed nodes" % F.where(fid)
               if not ok else "lock() dominates EntryGuard::clear() dominates mem::forget(guard)")
    if ctx.anchor(rule, "DMApplyCache::post_gc", len(post) == 1):
        B = cfg.Body(F.mir[post[0]])
        unl = [i for i, t in B.calls() if (cfg.callee_name(t) or "").endswith("::unlock")]
        ctx.ob(rule, rule + ":post_gc-unlocks", bool(unl),
               "DMApplyCache::post_gc (%s) does not unlock the entries" % F.where(post[0]) if not unl else "unlocks")
    # ---- levels added / reordered: the cache reacts to pre_reorder ---------------------------------------------
    # Manager::reorder brackets with pre_gc/post_gc, add_vars* only with pre_reorder/post_reorder: results that
    # depend on the number of levels (ZBDD restrict embeds tautologies) must not survive a variable addition.
    prr = find_fn(F, lambda fid, r: fid.startswith("oxidd_cache::direct::") and
                  (fid.endswith("::pre_reorder") or fid.endswith("::pre_reorder_mut") or fid.endswith("::post_reorder")
                   or fid.endswith("::post_reorder_mut")))
    okr = False
    msg = "DMApplyCache does not implement any reorder event: memoised results survive add_vars (which emits no pre_gc)"
    for fid in prr:
        B = cfg.Body(F.mir[fid])
        names = [cfg.callee_name(t) or "" for _, t in B.calls()]
        clears = [n for n in names if n.endswith("::clear")]
        blocking = [n for n in names if re.search(r"::lock$", n)]
        if clears and not blocking:
            okr = True
            msg = "%s (%s) clears the entries it can try_lock" % (F.nice(fid), F.where(fid))
        elif clears:
            msg = ("%s (%s) blocks on Entry::lock: inside Manager::reorder the entries are still locked by pre_gc "
                   "(deadlock)" % (F.nice(fid), F.where(fid)))
    ctx.ob(rule, rule + ":reorder-clears", okr, msg)
    # ---- operation path never blocks: get_extended / add_extended use try_lock --------------------------
    for nm in ("get_extended", "add_extended"):
        fs = find_fn(F, lambda fid, r: fid.startswith("oxidd_cache::direct::") and fid.endswith("::" + nm))
        if ctx.anchor(rule, "DMApplyCache::" + nm, len(fs) == 1):
            B = cfg.Body(F.mir[fs[0]])
            names = [cfg.callee_name(t) or "" for _, t in B.calls()]
            blocking = [n for n in names if re.search(r"::lock$", n)]
            trying = [n for n in names if n.endswith("::try_lock")]
            ctx.ob(rule, "%s:%s-try_lock" % (rule, nm), bool(trying) and not blocking,
                   "DMApplyCache::%s (%s) must use try_lock only (entries stay locked during gc): blocking=%s"
                   % (nm, F.where(fs[0]), blocking))
    check_guard_construction(ctx, F, rule)

def check_guard_construction(ctx, F, rule="E-CACHE.dm"):
    """An `EntryGuard` unlocks its entry when dropped, so one may only come into existence where the entry's lock has
    just been acquired: after `mutex.lock()` or on the success edge of `mutex.try_lock()`.  A guard that is built
    unconditionally (e.g. as the eager argument of `bool::then_some`) and dropped on the failure path unlocks an entry
    that another thread -- or the garbage collector between pre_gc and post_gc -- holds."""
    n = 0
    for fid, m in sorted(F.mir.items()):
        if not fid.startswith("oxidd_cache::direct::"):
            continue
        B = cfg.Body(m)
        sites = [i for i in sorted(B.reach) if not m["blocks"][i]["c"] and
                 any((s.get("rv") or {}).get("k") == "aggr" and str(s["rv"].get("adt", "")).endswith("::EntryGuard")
                     for s in m["blocks"][i]["s"])]
        if not sites:
            continue
        calls = list(B.calls())
        locks = [i for i, t in calls if re.search(r"::lock$", cfg.callee_name(t) or "")]
        trys = [(i, t) for i, t in calls if (cfg.callee_name(t) or "").endswith("::try_lock")]
        for s in sites:
            n += 1
            ok = any(B.dominates(l, s) for l in locks)
            if not ok:
                for ti, t in trys:
                    d = t.get("d")
                    # the switch on the try_lock result
                    for si in sorted(B.reach):
                        tt = m["blocks"][si]["t"]
                        if tt.get("k") != "switch":
                            continue
                        dl = tt["d"].get("mv", tt["d"].get("cp"))
                        if dl != d and not any(st.get("lhs") == dl and (st.get("rv") or {}).get("k") == "use" and
                                               (st["rv"]["op"].get("cp", st["rv"]["op"].get("mv")) == d)
                                               for st in m["blocks"][si]["s"]):
                            continue
                        false_succ = [blk for v, blk in tt["t"] if str(v) == "0"]
                        true_succ = [tt["o"]] if false_succ else []
                        if true_succ and all(B.dominates(ts, s) for ts in true_succ) and \
                                not any(s in B.reachable_from(fs, avoid=(si,)) for fs in false_succ):
                            ok = True
            ctx.ob(rule, "%s:guard-after-lock:%s" % (rule, F.nice(fid)), ok,
                   "%s (%s): %s" % (F.nice(fid), F.where(fid),
                                    "the EntryGuard is created only after the entry's lock was acquired" if ok else
                                    "an EntryGuard is constructed on a path on which the entry's lock was not acquired (not after "
                                    "`lock()`, not on the success edge of `try_lock()`); dropping it unlocks an entry held by "
                                    "someone else"))
    return n
