"""E-TABLE: finite case tables, extracted from HIR and enumerated (DESIGN 3.3).

The abstract domain: an edge is one of a few *descriptors* (the terminals of the
kind, two "other" terminal constants for MTBDDs, two opaque inner nodes x and
y).  The table function is interpreted for every pair/triple of descriptors and
every outcome of the comparisons the table cannot decide from the descriptors
(`f > g`, `partial_cmp`); the result (Done(edge) / Not(a) / Binary(op, a, b))
is read as a *term* over the opaque functions x, y and compared with the
operator's specification by evaluating both terms over the finite value domain
of the kind ({0,1}; {F,U,T}; a grid of extended reals with NaN).
"""
import itertools
import math

from lib.interp import (Beyond, Edge, Enum, Infeasible, Interp, Opaque, Panic, Return, Unrecognised,
                        enumerate_runs)

OK = "core::result::Result::Ok"
ERR = "core::result::Result::Err"
SOME = "core::option::Option::Some"
NONE = "core::option::Option::None"
NODE_INNER = "oxidd_core::Node::Inner"
NODE_TERMINAL = "oxidd_core::Node::Terminal"
ORD = "core::cmp::Ordering::"


# ---- numbers (MTBDD) -----------------------------------------------------------
NAN = ("nan",)


def num_const(v):
    return ("const", v)


def num_eval(t, val):
    k = t[0]
    if k == "nan":
        return math.nan
    if k == "const":
        return float(t[1])
    if k in ("sym", "atom"):
        return val[t[1]]
    if k == "op":
        a = num_eval(t[2], val)
        b = num_eval(t[3], val)
        return NUM_OPS[t[1]](a, b)
    raise ValueError(t)


def _div(a, b):
    if math.isnan(a) or math.isnan(b):
        return math.nan
    if b == 0:
        if a == 0:
            return math.nan
        return math.inf if a > 0 else -math.inf
    if math.isinf(a) and math.isinf(b):
        return math.nan
    return a / b


def _min(a, b):
    if math.isnan(a) or math.isnan(b):
        return math.nan
    return min(a, b)


def _max(a, b):
    if math.isnan(a) or math.isnan(b):
        return math.nan
    return max(a, b)


def _mul(a, b):
    if math.isnan(a) or math.isnan(b):
        return math.nan
    if (a == 0 and math.isinf(b)) or (b == 0 and math.isinf(a)):
        return math.nan
    return a * b


NUM_OPS = {
    "add": lambda a, b: a + b, "sub": lambda a, b: a - b, "mul": _mul, "div": _div,
    "min": _min, "max": _max,
}
MTBDD_SPEC = {"Add": "add", "Sub": "sub", "Mul": "mul", "Div": "div", "Min": "min", "Max": "max"}
NUM_GRID = [math.nan, -math.inf, -2.0, -1.0, 0.0, 1.0, 2.0, 3.0, math.inf]
SYM_GRID = [-math.inf, -2.0, -1.0, 2.0, 3.0, math.inf]   # "other" terminals: not NaN, 0, 1


def num_same(a, b):
    return (math.isnan(a) and math.isnan(b)) or a == b


# ---- Boolean / three-valued specs ------------------------------------------------
BDD_SPEC = {
    "And": lambda a, b: a & b, "Or": lambda a, b: a | b,
    "Nand": lambda a, b: 1 - (a & b), "Nor": lambda a, b: 1 - (a | b),
    "Xor": lambda a, b: a ^ b, "Equiv": lambda a, b: 1 - (a ^ b),
    "Imp": lambda a, b: (1 - a) | b, "ImpStrict": lambda a, b: (1 - a) & b,
}
# F=0, U=1, T=2: Kleene strong and/or, Lukasiewicz imp/equiv
TDD_SPEC = {
    "And": min, "Or": max,
    "Nand": lambda a, b: 2 - min(a, b), "Nor": lambda a, b: 2 - max(a, b),
    "Equiv": lambda a, b: 2 - abs(a - b), "Xor": lambda a, b: abs(a - b),
    "Imp": lambda a, b: min(2, 2 - a + b), "ImpStrict": lambda a, b: max(0, b - a),
}


class Kind:
    def __init__(self, name, terminal_enum, term_values, spec, nvals, not_fn):
        self.name = name
        self.terminal_enum = terminal_enum   # def-path prefix of the terminal enum (None for MTBDD)
        self.term_values = term_values       # short name -> value
        self.spec = spec
        self.nvals = nvals
        self.not_fn = not_fn


BDD = Kind("bdd", "oxidd_rules_bdd::simple::BDDTerminal", {"False": 0, "True": 1}, BDD_SPEC, 2, lambda v: 1 - v)
TDD = Kind("tdd", "oxidd_rules_tdd::TDDTerminal", {"False": 0, "Unknown": 1, "True": 2}, TDD_SPEC, 3, lambda v: 2 - v)
ZBDD = Kind("zbdd", "oxidd_rules_zbdd::ZBDDTerminal", {"Empty": 0, "Base": 1}, None, 2, None)
MTBDD = Kind("mtbdd", None, None, MTBDD_SPEC, None, None)


class DDDomain:
    """builtin semantics for the operations that occur in the tables"""

    def __init__(self, F, kind, helpers=()):
        self.F = F
        self.kind = kind
        self.helpers = set(helpers)   # local functions that may be interpreted recursively
        self.assume = []              # (a_term, "<" | ">", b_term)
        self._discr = {}

    # -- equality / order -----------------------------------------------------------
    def equal(self, it, a, b):
        if isinstance(a, Edge) and isinstance(b, Edge):
            return a == b
        if isinstance(a, Enum) and isinstance(b, Enum):
            return a == b
        if isinstance(a, bool) and isinstance(b, bool):
            return a == b
        if isinstance(a, int) and isinstance(b, int):
            return a == b
        if isinstance(a, tuple) and isinstance(b, tuple) and a and isinstance(a[0], str):
            # number terms: syntactic identity only for atoms/constants
            if a == b:
                return True
            if a[0] in ("nan", "const") and b[0] in ("nan", "const"):
                return False
            return None
        if isinstance(a, tuple) and isinstance(b, tuple) and len(a) == len(b):
            rs = [self.equal(it, x, y) for x, y in zip(a, b)]
            if any(r is None for r in rs):
                return None
            return all(rs)
        return None

    def compare(self, it, a, b):
        if isinstance(a, int) and isinstance(b, int):
            return (a > b) - (a < b)
        if isinstance(a, Edge) and isinstance(b, Edge):
            if a == b:
                return 0
            ka, kb = repr(a), repr(b)
            lo, hi = (a, b) if ka < kb else (b, a)
            c = it.fork(("edgeord", repr(lo), repr(hi)), 2, "%r<%r?" % (lo, hi))
            lo_less = (c == 0)
            if a is lo or a == lo:
                return -1 if lo_less else 1
            return 1 if lo_less else -1
        return None

    def const(self, it, e):
        return None

    def discriminant(self, it, path):
        if path in self._discr:
            return self._discr[path]
        adt, _, var = path.rpartition("::")
        r = self.F.adts.get(adt)
        if not r:
            return None
        for v in r["variants"]:
            if v["n"] == var:
                self._discr[path] = int(v["discr"])
                return self._discr[path]
        return None

    def unop(self, it, o, v):
        if o == "!" and isinstance(v, Enum) and self.kind.terminal_enum and v.path.startswith(self.kind.terminal_enum):
            # `!terminal`: interpret the kind's own `Not` impl
            fid = self._find_impl_fn("std::ops::Not", self.kind.terminal_enum, "not")
            if fid:
                return it.call_fn(fid, [v])
        return None

    def binop(self, it, o, l, r):
        return None

    def field(self, it, v, n):
        return None

    def try_(self, it, v):
        if isinstance(v, Enum):
            if v.path in (OK, SOME):
                return v.args[0]
            if v.path in (ERR, NONE):
                raise Return(v)
        raise Unrecognised("? on %r" % (v,))

    def _find_impl_fn(self, trait, self_prefix, name):
        for r in self.F.fns.values():
            imp = r.get("impl")
            if imp and imp.get("trait") == trait and imp["self"].startswith(self_prefix) and r["id"].endswith("::" + name):
                return r["id"]
        return None

    # -- terminals ------------------------------------------------------------------
    def terminal_value(self, e):
        return e.node[1]

    def num_class(self, t):
        if t == NAN:
            return "nan"
        if t[0] == "const":
            return {0: "zero", 1: "one"}.get(t[1], "other")
        if t[0] == "sym":
            return "other"
        return None

    # -- calls ----------------------------------------------------------------------
    def call(self, it, name, f, args_e, env, e):
        did = f.get("did", "")
        if did.startswith("core::panicking::") or name.startswith("std::rt::panic") or "unreachable" in did:
            raise Panic("panic/unreachable reached")
        if did.startswith("core::fmt::"):
            return Opaque("fmt")
        if did == "oxidd_core::function::NumberBase::nan":
            return NAN
        if did == "oxidd_core::function::NumberBase::zero":
            return num_const(0)
        if did == "oxidd_core::function::NumberBase::one":
            return num_const(1)
        if did == "core::mem::drop" or did == "core::hint::black_box":
            return ()
        if did in self.helpers or did in getattr(self, "auto_helpers", ()):
            args = [it.ev(a, env) for a in args_e]
            consts = self._const_args(it, f, env, did)
            return it.call_fn(did, args, consts)
        raise Unrecognised("call to %s" % (name,))

    def _const_args(self, it, f, env, did):
        """const generic arguments of a callee, mapped to its const parameter names"""
        r = self.F.fns.get(did)
        if not r:
            return {}
        names = [g["n"] for g in r.get("generics", []) if g["k"] == "const"]
        vals = []
        for g in f.get("ga", []):
            if isinstance(g, dict):
                if "int" in g:
                    vals.append(int(g["int"]))
                else:
                    # forwarded const parameter
                    vals.append(env.get("$consts", {}).get(g["c"]))
        return dict(zip(names, vals))

    def call_value(self, it, fv, args):
        raise Unrecognised("call of a value")

    def method(self, it, m, e, env):
        recv = it.recv(e, env)
        K = self.kind
        if m == "oxidd_core::Manager::get_node":
            (edge,) = it.args(e, env)
            return self.node_of(edge)
        if m == "oxidd_core::Manager::clone_edge":
            (edge,) = it.args(e, env)
            return edge
        if m == "oxidd_core::Manager::get_terminal":
            (tv,) = it.args(e, env)
            return Enum(OK, [self.terminal_edge(tv)])
        if m in ("oxidd_core::Edge::borrowed", "std::borrow::Borrow::borrow", "std::clone::Clone::clone",
                 "oxidd_core::util::Borrowed::<'a, E>::into_inner", "std::ops::Deref::deref",
                 "std::convert::AsRef::as_ref"):
            return recv
        if m.endswith("Result::<T, E>::unwrap") or m.endswith("Option::<T>::unwrap") or m.endswith("::expect"):
            if isinstance(recv, Enum) and recv.path in (OK, SOME):
                return recv.args[0]
            raise Panic("unwrap of %r" % (recv,))
        if m == "oxidd_core::Node::<'a, M>::is_terminal":
            (tv,) = it.args(e, env)
            return isinstance(recv, Enum) and recv.path == NODE_TERMINAL and self.equal(it, recv.args[0], tv) is True
        if m == "oxidd_core::Node::<'a, M>::is_any_terminal":
            return isinstance(recv, Enum) and recv.path == NODE_TERMINAL
        if m == "oxidd_core::Node::<'a, M>::is_inner":
            return isinstance(recv, Enum) and recv.path == NODE_INNER
        if m == "oxidd_core::Edge::tag":
            return recv.tag
        if m in ("oxidd_core::Edge::with_tag", "oxidd_core::Edge::with_tag_owned"):
            (tag,) = it.args(e, env)
            return Edge(recv.node, tag)
        if m.startswith("oxidd_core::function::NumberBase::"):
            op = m.rsplit("::", 1)[1]
            if op in ("is_zero", "is_one", "is_nan"):
                c = self.num_class(recv)
                if c is None:
                    raise Unrecognised("%s on compound number" % op)
                return c == {"is_zero": "zero", "is_one": "one", "is_nan": "nan"}[op]
            if op in ("add", "sub", "mul", "div"):
                (b,) = it.args(e, env)
                return ("op", op, recv, b)
        if m == "std::cmp::PartialOrd::partial_cmp":
            (b,) = it.args(e, env)
            a = recv
            if a == NAN or b == NAN:
                return Enum(NONE)
            if a == b:
                return Enum(SOME, [Enum(ORD + "Equal")])
            if a[0] == "const" and b[0] == "const":
                return Enum(SOME, [Enum(ORD + ("Less" if a[1] < b[1] else "Greater"))])
            c = it.fork(("cmp", a, b), 2, "%r<%r?" % (a, b))
            self.assume.append((a, "<" if c == 0 else ">", b))
            return Enum(SOME, [Enum(ORD + ("Less" if c == 0 else "Greater"))])
        raise Unrecognised("method %s" % m)

    def node_of(self, edge):
        if not isinstance(edge, Edge):
            raise Unrecognised("get_node of %r" % (edge,))
        if edge.node[0] == "T":
            return Enum(NODE_TERMINAL, [edge.node[1]])
        return Enum(NODE_INNER, [Opaque("node " + edge.node[1])])

    def terminal_edge(self, tv):
        return Edge(("T", tv))


# ---- universes -----------------------------------------------------------------------
def universe(kind):
    if kind is MTBDD:
        ts = [NAN, num_const(0), num_const(1), ("sym", "c1"), ("sym", "c2")]
        return [Edge(("T", t)) for t in ts] + [Edge(("N", "x")), Edge(("N", "y"))]
    ts = [Enum("%s::%s" % (kind.terminal_enum, n)) for n in kind.term_values]
    return [Edge(("T", t)) for t in ts] + [Edge(("N", "x")), Edge(("N", "y"))]


def edge_label(e):
    if e.node[0] == "N":
        return e.node[1]
    t = e.node[1]
    if isinstance(t, Enum):
        return t.short
    if t == NAN:
        return "NaN"
    return str(t[1])


# ---- denotations -----------------------------------------------------------------------
class Denote:
    """reads a table result as a term and evaluates it under a valuation"""

    def __init__(self, kind, op_enum_prefix, variants):
        self.kind = kind
        self.opfx = op_enum_prefix
        self.v = variants   # dict: role -> def-path of Operation variant

    def edge(self, e, val):
        K = self.kind
        if e.node[0] == "N":
            return val[e.node[1]]
        t = e.node[1]
        if K is MTBDD:
            return num_eval(t, val)
        return K.term_values[t.short]

    def op_name(self, opv):
        if not (isinstance(opv, Enum) and opv.path.startswith(self.opfx)):
            raise Unrecognised("operator value %r" % (opv,))
        return opv.short

    def apply(self, name, a, b):
        K = self.kind
        if K is MTBDD:
            return NUM_OPS[MTBDD_SPEC[name]](a, b)
        return K.spec[name](a, b)

    def result(self, r, val):
        if isinstance(r, Enum) and r.path == OK:
            r = r.args[0]
        if isinstance(r, Edge):
            return self.edge(r, val)
        if not isinstance(r, Enum):
            raise Unrecognised("table result %r" % (r,))
        if r.path == self.v.get("Done"):
            return self.edge(r.args[0], val)
        if r.path == self.v.get("Not"):
            return self.kind.not_fn(self.edge(r.args[0], val))
        if r.path == self.v.get("Binary"):
            return self.apply(self.op_name(r.args[0]), self.edge(r.args[1], val), self.edge(r.args[2], val))
        raise Unrecognised("table result %r" % (r,))

    def same(self, a, b):
        if self.kind is MTBDD:
            return num_same(a, b)
        return a == b

    def valuations(self, assume):
        K = self.kind
        if K is MTBDD:
            for c1, c2, x, y in itertools.product(SYM_GRID, SYM_GRID, NUM_GRID, NUM_GRID):
                if c1 == c2:
                    continue
                val = {"c1": c1, "c2": c2, "x": x, "y": y}
                okv = True
                for a, rel, b in assume:
                    av, bv = num_eval(a, val), num_eval(b, val)
                    if not ((av < bv) if rel == "<" else (av > bv)):
                        okv = False
                        break
                if okv:
                    yield val
        else:
            for x, y, z in itertools.product(range(K.nvals), repeat=3):
                yield {"x": x, "y": y, "z": z}


def check_binary_table(ctx, F, rule, fid, kind, op_enum, operation_enum, helpers=(), const_name="OP"):
    """terminal_bin-shaped table: fn(m, f, g) with const OP"""
    if not ctx.anchor(rule, fid, fid in F.hir):
        return 0
    adt = F.adts.get(op_enum)
    if not ctx.anchor(rule, op_enum, adt is not None):
        return 0
    variants = {v["n"]: "%s::%s" % (operation_enum, v["n"]) for v in F.adts[operation_enum]["variants"]}
    den = Denote(kind, op_enum, variants)
    U = universe(kind)
    n = 0
    nice = F.nice(fid)
    spec_ops = kind.spec if kind is not MTBDD else MTBDD_SPEC
    for v in adt["variants"]:
        opname = v["n"]
        if opname not in spec_ops:
            continue
        opv = int(v["discr"])
        fails = []
        _ob = ctx.ob

        def ob(rule_, key_, ok_, detail_="", **kw):
            if not ok_:
                fails.append(detail_)
            _ob(rule_ + ".case", key_, ok_, detail_, report=False, **kw)
        for f, g in itertools.product(U, U):
            dom_holder = {}

            def mk(oracle):
                d = DDDomain(F, kind, helpers)
                dom_holder["d"] = d
                return Interp(F, d, oracle)

            def run(it):
                return it.call_fn(fid, [Opaque("manager"), f, g], {const_name: opv})
            for trace, (status, val) in enumerate_runs(mk, run):
                n += 1
                key = "%s:%s:%s:(%s,%s)" % (rule, nice, opname, edge_label(f), edge_label(g))
                sit = "%s(%s, %s)%s" % (opname, edge_label(f), edge_label(g),
                                        (" with " + ", ".join("%s=%s" % (l, c) for l, c in trace)) if trace else "")
                if status == "unrecognised":
                    ob(rule, key, False, "UNRECOGNISED-SHAPE in %s at %s while evaluating %s: %s "
                           "(the table evaluator fails closed on idioms it does not know)"
                           % (nice, F.where(fid), sit, val))
                    continue
                if status == "panic":
                    ob(rule, key, False, "%s at %s panics/has no arm for %s: %s" % (nice, F.where(fid), sit, val))
                    continue
                if status in ("beyond", "infeasible"):
                    ob(rule, key, True, "no verdict (%s) for %s" % (status, sit), nontrivial=False)
                    continue
                d = dom_holder["d"]
                bad = None
                nval = 0
                try:
                    for valn in den.valuations(d.assume):
                        nval += 1
                        got = den.result(val, valn)
                        want = den.apply(opname, den.edge(f, valn), den.edge(g, valn))
                        if not den.same(got, want):
                            bad = (valn, got, want)
                            break
                except Unrecognised as u:
                    ob(rule, key, False, "UNRECOGNISED-SHAPE result in %s for %s: %s" % (nice, sit, u))
                    continue
                if nval == 0:
                    ob(rule, key, True, "assumptions unsatisfiable for %s" % sit, nontrivial=False)
                    continue
                if bad:
                    valn, got, want = bad
                    ob(rule, key, False,
                           "%s at %s: for %s the table returns %r, which evaluates to %s but %s requires %s "
                           "(witness valuation %s)" % (nice, F.where(fid), sit, val, got, opname, want,
                                                       {k: valn[k] for k in sorted(valn)}))
                else:
                    ob(rule, key, True, "%s -> %r agrees with the specification on %d valuations"
                       % (sit, val, nval))
        ctx.ob(rule, "%s:%s:%s" % (rule, nice, opname), not fails,
               ("%d abstract situation(s) of operator %s disagree with its specification; first: %s"
                % (len(fails), opname, " || ".join(fails[:2]))) if fails else
               "all abstract situations of %s agree with the specification" % opname)
    return n
