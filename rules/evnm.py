"""E-VNM: VarNameMap keeps `names` (var -> name) and `index` (name -> var) over shared, manually freed strings.

  push     a non-empty name is pushed to `names` only after `VacantEntry::insert` put it into `index`;
  displace every slot value displaced from `names` (mem::replace) is removed from `index` before it is freed or
           forgotten;
  free     `Unowned::into_box` (free) is applied to a fresh key only while it is not in `index` (never after
           `VacantEntry::insert`), to a displaced slot only after `index.remove`, to drained keys only after
           `names.clear()`.
"""
import re

from lib import cfg
import eevent
from efreelist import origins

MOD = "oxidd_core::util::var_name_map::"


def run(ctx, F, rule="E-VNM"):
    fns = {fid: m for fid, m in F.mir.items() if fid.startswith(MOD) and "::unowned::" not in fid}
    if not ctx.anchor(rule, "VarNameMap functions", len(fns) >= 8):
        return
    n_free = n_push = n_disp = 0
    for fid, m in sorted(fns.items()):
        B = cfg.Body(m)
        nice = F.nice(fid)
        where = F.where(fid)
        calls = list(B.calls())

        def blocks(rx):
            return [i for i, t in calls if re.search(rx, cfg.callee_name(t) or "") and not m["blocks"][i]["c"]]
        inserts = blocks(r"VacantEntry::<.*>::insert$")
        removes = blocks(r"HashMap::<K, V, S, A>::remove$")
        clears = blocks(r"Vec::<T, A>::clear$")
        headers = blocks(r"Iterator>::next$|Iterator::next$")   # loop headers: reason per iteration

        def classify(op):
            kinds = set()
            for o in origins(B, m, [op]):
                if o[0] == "call":
                    cn = cfg.callee_name(o[1]) or ""
                    if cn.endswith("mem::replace") or cn.endswith("mem::take"):
                        kinds.add(("displaced", o[2]))
                    elif cn.endswith("::into_boxed_str"):
                        kinds.add(("fresh", o[2]))
                    elif cn.endswith("Iterator>::next") or cn.endswith("Iterator::next"):
                        kinds.add(("drained", o[2]))
                    elif cn.endswith("Into<U>>::into") or cn.endswith("Into::into") or cn.endswith("From<T>>::from"):
                        for o2 in origins(B, m, o[1]["a"]):
                            if o2[0] == "call" and (cfg.callee_name(o2[1]) or "").endswith("::into_boxed_str"):
                                kinds.add(("fresh", o2[2]))
                elif o[0] == "param":
                    kinds.add(("param", 0))
            return kinds
        for i, t in calls:
            cn = cfg.callee_name(t) or ""
            if m["blocks"][i]["c"]:
                continue
            if cn.endswith("Unowned::<T>::into_box"):
                n_free += 1
                kinds = classify(t["a"][0])
                ok = True
                why = "origin of the freed string not recognised (%s)" % sorted(k for k, _ in kinds)
                if any(k == "fresh" for k, _ in kinds):
                    ok = not any(B.can_reach(x, i, avoid=headers) for x in inserts)
                    why = "a key is freed after VacantEntry::insert stored it in `index` (dangling key)"
                elif any(k == "displaced" for k, _ in kinds):
                    src = [b for k, b in kinds if k == "displaced"]
                    ok = any(B.dominates(r, i) and any(B.dominates(s_, r) for s_ in src) for r in removes)
                    why = ("the string displaced from `names` is freed without removing its key from `index` first: "
                           "`index` keeps a dangling key (name_to_var finds a renamed variable, num_named_vars over-counts)")
                elif any(k == "drained" for k, _ in kinds):
                    ok = any(B.dominates(c, i) for c in clears)
                    why = "drained keys are freed while `names` may still alias them"
                elif any(k == "param" for k, _ in kinds):
                    ok = nice.endswith("unowned_to_string")
                    why = "into_box on a parameter outside unowned_to_string"
                else:
                    ok = False
                ctx.ob(rule + ".free", "%s.free:%s:%s" % (rule, nice, "/".join(sorted({k for k, _ in kinds})) or "?"), ok,
                       "%s (%s): %s" % (nice, where, why))
            elif cn.endswith("Vec::<T, A>::push") and len(t["a"]) == 2:
                kinds = classify(t["a"][1])
                if any(k == "fresh" for k, _ in kinds):
                    n_push += 1
                    ok = any(B.dominates(x, i) for x in inserts)
                    ctx.ob(rule + ".push", "%s.push:%s" % (rule, nice), ok,
                           "%s (%s): a non-empty name is appended to `names` on a path that did not insert it into `index` "
                           "(var_name answers, name_to_var does not)" % (nice, where))
            elif cn.endswith("mem::replace") or cn.endswith("mem::take"):
                # is the replaced place an element of `names`?
                isnames = False
                for s in [s for b in m["blocks"] for s in b["s"]]:
                    if "lhs" in s and s["rv"]["k"] == "ref" and isinstance(s["rv"]["p"], dict) \
                            and any(e.startswith(".names@") for e in s["rv"]["p"]["p"]):
                        isnames = True
                if not isnames or nice.endswith("into_names_iter"):
                    continue
                n_disp += 1
                ok = any(B.dominates(i, r) for r in removes) and \
                    eevent.no_path_avoiding(B, i, B.exits(), removes + [x for x in B.reach if B.blocks[x]["t"]["k"] == "switch"]) or \
                    any(B.dominates(i, r) for r in removes)
                ctx.ob(rule + ".displace", "%s.displace:%s" % (rule, nice), ok,
                       "%s (%s): a name slot is displaced (mem::replace) but the old name is never removed from `index`"
                       % (nice, where))
    # ---- len / is_empty / named_count read the structure they are documented to describe ------------------------
    import edm
    ADT = "oxidd_core::util::var_name_map::VarNameMap"
    want = {"len": {"names"}, "is_empty": {"names"}, "named_count": {"index"}}
    for fid, m in sorted(fns.items()):
        nm = fid.rsplit("::", 1)[1]
        if nm in want and "VarNameMap>" in F.nice(fid):
            fs = edm.fields_of(m, ADT)
            ctx.ob(rule + ".siblings", "%s.siblings:%s" % (rule, nm), fs == want[nm],
                   "VarNameMap::%s (%s) reads %s; `len`/`is_empty` describe the number of variables (the `names` vector, "
                   "unnamed variables included) and `named_count` the number of names (`index`). The managers use "
                   "is_empty() to decide whether a name map may replace theirs wholesale"
                   % (nm, F.where(fid), sorted(fs)))
    ctx.floor(rule + ".free", "Unowned::into_box sites", n_free, 7)
    ctx.floor(rule + ".push", "pushes of fresh names", n_push, 2)
    ctx.floor(rule + ".displace", "displaced name slots", n_disp, 2)
