#!/usr/bin/env python3
"""regenerates MANIFEST.json from the claims table below"""
import json, os
V = os.path.dirname(os.path.dirname(os.path.abspath(__file__)))
ids = [json.loads(l)['id'] for l in open(os.path.join(V, 'properties.jsonl'))]
NOTE = ("Trusted: rustc nightly HIR/typeck/MIR construction, drop elaboration and trait resolution; the idiom, "
        "classification and builtin-meaning tables in /verif/rules (each entry read against the source). Generic code "
        "is analysed pre-monomorphisation. Only the named structural clause is decided, not the behavioural property.")
CLAIMS = {
 "C01": ("E-CANON + E-TABLE.reduce + E-RAW: the hash-consing discipline that 'equal functions => equal handles' rests on: "
         "node Eq/Hash over children only; get_or_insert allocates on the Err arm only and files under the looked-up hash; "
         "reviewed direct node constructions; level_swap mutates nodes only while out of the table; all 12 reduce functions "
         "interpreted over their abstract child domain (no redundant node, canonical complement form, level agreement); "
         "probe-chain accounting of the open-addressing unique table; level_swap's per-node body interpreted on a model store (E-TABLE.swap: function preserved across the swap for BDD/BCDD/ZBDD, placement, no duplicate, cleanup); the var/level maps stay mutually inverse (E-VLM); every F64 terminal constructor normalises its value (one bit pattern per value). Does not decide the 'iff' over histories.",
         "MIR field/dominance rules + abstract interpretation of HIR reduce tables", "3.8, 3.3, 4 C01"),
 "C15": ("E-DDDMP(.strict,.taint,.deadcheck,.prefix) + E-UNITS + E-LIN: writer/reader agreement as finite constant tables: header key set inclusion, byte-class "
         "coverage of the name sanitisers vs the reader's separators (all 256 bytes), escape table and binary node-code layout "
         "mutually inverse (exhaustive); var/level unit discipline of the exporter/importer; no edge leaked on importer error "
         "paths; MIR taint analysis of the importer: no number decoded from the file reaches an index, subtraction or allocation size "
         "without a dominating range check or checked/clamping operation; id-list sortedness checks are strict; no overflow check relies "
         "on checked_shl; prefix tests have the file buffer as receiver. Tables addressed by manager levels are sized by the manager, not by the file (E-UNITS.sized). The exporter prints variable numbers under .ids and level numbers under .permids (E-DDDMP.fields), numbers levels bottom-up with node ids from 1 and support-variable indices pre-decremented (E-DDDMP.numbering). The reader inverts the writer's binary id / variable codes over a small exhaustive domain, payload numbers are written exactly for AbsoluteID / RelativeID, mode selection and the complement flag have the documented form (E-DDDMP.bincodes); variable loops start at 0, terminal lines end in ` 0 0` (E-DDDMP.ascii); the importer rejects level >= child level (E-DDDMP.order). The header validation of DumpHeader::load is interpreted on 12 well-formed and 22 malformed model headers (accepted with the right variable order and names / rejected with Err, never a panic; E-DDDMP.header); per-node arity, terminal and child-id checks of both node readers (E-DDDMP.noderec); sanitising errors only under `strict` (E-DDDMP.strictmode); invented names cannot collide with real ones (E-DDDMP.placeholder); write_replacing_control's flag (E-DDDMP.ctrlflag); all callers of import map variables by support_var_order() (E-DDDMP.callers). Round-trip equality and totality beyond these sinks are not decided.",
         "constant-table extraction from HIR + exhaustive evaluation; unit analysis", "3.9, 4 C15"),
 "C19": ("E-FFI + E-LIN + E-UNITS on oxidd-ffi-c: C symbol <-> Rust operation wiring and operand order, equal export sets of the "
         "three files, from_raw only under ManuallyDrop::new (borrow) or drop (unref), no entry point but the documented one "
         "consumes handles and that one does so unconditionally, failure -> INVALID mapping, operand validation in op1/op2/op3, no "
         "exported function returns one of its argument handles except the reference-taking *_ref functions, parallel C arrays are "
         "zipped before filtering; the bdd/bcdd/zbdd variants of each exported function are the same program up to the kind's names "
         "(sibling comparison of normalised HIR incl. the handle conversions and the INVALID constant, 1 reviewed deviation); EMPTY / INVALID constants are null / zero-length (E-FFI.empty); bool status results follow handle_err_or_init (E-FFI.status). Pointer operations lie on the non-null edge of null tests (E-FFI.null). "
         "Call-sequence equivalence with the Rust API is not decided.",
         "HIR/MIR who-may-call and typestate rules", "3.7, 4 C19"),
 "C16": ("E-VNM(.lockstep,.clone) + E-EVENT + E-UNITS: the name map's push/insert, displace/remove and free discipline on every path; the "
         "add_vars* brackets of both managers incl. the scope guard that keeps level table, var/level map and name map the same "
         "length on every exit; add_named appends exactly one name per variable number drawn; Clone allocates fresh strings. set_var_name rejects a present name exactly when another variable owns it (E-VNM.dup) and removes a displaced name exactly when non-empty; the index's key type compares and hashes by content (E-VNM.key); the var/level maps are extended with the identity and stay mutually inverse (E-VLM). add_vars / add_named_vars_from_map grow all three tables consistently and return exactly the new variables' range (E-VNM.addvars). The "
         "bijection over call sequences as behaviour is not decided.",
         "MIR dominance / provenance rules", "3.8, 3.5, 4 C16"),
 "C20": ("E-CFG: the configuration corners are type-checked under the fact extractor (quick: default + 3 extreme corners, "
         "thorough: all 8) and E-LIN/E-WRAP (+E-CACHE/E-EVENT where a cache exists) are re-run on each; sibling agreement of the two "
         "node types (ARITY constant, method bodies) and NoApplyCache = constant miss. The worker-count dependent reordering path: E-PERM (+ .blocked, .acquire, .relabel); the two managers' VarLevelMap copies are the same program (E-VLM); MT function types forward to the sequential ones (E-WRAP.delegate). The pointer-based manager (never built by the default test suite): E-PTR.tagbits, E-CANON.ptrsplit, E-LIN.rcguard / .rcconst / .mint. Observational equivalence of results is not "
         "decided.", "type-checking the feature matrix + sibling comparison of HIR", "3.9, 4 C20"),
 "C17": ("E-RAW.model: find / find_or_find_insert_slot / insert_in_slot_unchecked / remove_at_slot_unchecked / retain / is_hash interpreted from all 125 well-formed 4-slot tables for both status encodings (results, exact len / free, every resulting table well-formed again). E-RAW on linear_hashtbl::raw: inventory of writers of the free-slot counter, +1/-1 pairing with status stores, "
         "provenance of retain's successor-is-free flag, Drain's full sweep, counter assignment when the slot array is replaced, "
         "probe-loop guards, Slot::clone keeps the status word, remove frees a slot only next to a FREE successor, lookups "
         "answer absent only on a FREE slot. The successor tested by remove is the cyclic one; reserve_rehash rebuilds the array on every path, assigns free = new_cap - len and all probes advance by one slot modulo the size (E-RAW.rehash); the element counts move in the reviewed direction in each of their 13 writers (E-RAW.len). Emptiness shortcuts compare with 0 and leave without visiting slots (E-RAW.lenzero). Necessary conditions of `free <= #FREE slots` (termination of lookups, intact probe chains); set "
         "semantics over operation sequences is not decided.",
         "MIR dataflow/dominance rules with a frozen writer table", "3.8, 4 C17"),
 "C02": ("E-TABLE.{bdd,bcdd,shortcut,step} + E-WRAP + E-UNITS + E-CACHE + E-TABLE.cof + E-EVAL: the terminal/base-case table of all 8 BDD connectives and "
         "BCDD's terminal_and/terminal_xor (incl. complement tags) are enumerated over their abstract operand domain and compared "
         "with truth tables; the shortcut prefixes of apply_ite (BDD) and of the ZBDD set operations are interpreted up to the "
         "cache lookup; every BooleanFunction `x_edge` wrapper (BDD, BCDD, ZBDD; ST and MT) is interpreted over abstract operands and must "
         "denote the connective it is named for; default methods forward to their _edge sibling; var/level units and apply-cache "
         "key pairing / hit = miss of the bdd and zbdd rules crates; E-TABLE.step: the recursive (Shannon) step of apply_bin, apply_ite, "
         "apply_not (BDD, BCDD with all complement-tag combinations) and of the ZBDD set operations is interpreted on structured "
         "abstract operands in every level configuration and compared with the operator for all values of the atoms and decision "
         "variables (plus variable-order and cache-entry validity). Decides base cases, shortcuts, the inductive step and wiring -- "
         "the induction itself, memory exhaustion and scheduling are not decided. E-TABLE.cof: DiagramRules::cofactors/cofactor of every kind (incl. the BCDD iterator) yield the children with the incoming tag applied, and cofactors_node/cofactors_edge hand them out in order. E-TABLE.ctor: constant / var / not_var constructors (ST+MT) build the terminal resp. the node at var_to_level(var) with the children in the documented order. E-EVAL: eval_edge interpreted for one iteration of its argument loop (the value given last counts, injective encodings, no other entry touched) and one call of its walk (child for the stored value; complement flag / counter / terminals), plus the initial call.",
         "abstract interpretation of HIR case tables and wrappers over finite domains", "3.3, 3.4, 3.12, 4 C02"),
 "C04": ("E-TABLE.step + E-TABLE.prep + E-WRAP + E-UNITS + E-CACHE: substitute_prepare fills entry var_to_level(v) and completes unmapped levels with the variable's own function (one interpreted iteration of each loop); quantifier wrappers and the BDD/BCDD apply-and-quantify dispatch (dualisation) tables are "
         "interpreted for all 8 operators and compared with Q v.(f op g) over all operand valuations; var/level units of the "
         "quantification/substitution code; cache key pairing and hit = miss (restrict's complement tag); E-TABLE.step: the recursive step of quant, "
         "apply_quant (all 24 / 7 instances), restrict (incl. its tail-recursive cube walk with complement-edge polarity) and "
         "substitute (simultaneity: swap tables) of BDD and BCDD interpreted on structured operands and cubes over three modelled "
         "levels and compared with the fold of cofactors / the cofactor / the simultaneous substitution. Decides tag/dualisation "
         "plumbing, unit discipline and the inductive step; not substitute_prepare's table construction nor the induction itself.", "abstract interpretation of HIR dispatch tables", "3.4, 4 C04"),
 "C05": ("E-SLOT.bound, E-SLOT.model (add_node / get_slot_from_shared interpreted for six allocation sequences on a model store: every slot handed out once, OutOfMemory exactly when nothing is left), E-IDX.tagbits, E-SLAB.model (the pointer-based store's slab allocator interpreted: distinct slots, reuse of freed slots, chained pages), E-SLAB.page (slab page initialisation of the pointer-based store interpreted with integer addresses), E-FREELIST.term.link (free list of the dynamic terminal store interpreted: sweep links, retain predicate, pop, OutOfMemory at the end). E-LIN(+.forget,.mint) + E-FREELIST(.count,.term) + E-CACHE.dm + E-CANON.swap + E-WHO + E-EVENT.gc-order + E-DBG + E-CFG.slabtype: edge linearity on every non-unwind path of every function body "
         "(drop-elaborated MIR) plus the vetted-destructor table; thread-local free lists and node-count deltas are handed to the "
         "shared store by move only; level_swap releases a node's edges before unlinking children; frozen caller sets of the "
         "node-removal primitives and their gates; Manager::gc sweeps all inner-node levels before the terminal table; the apply cache (uncounted edges) stays locked and empty "
         "between pre_gc and post_gc; node-count bookkeeping (failed allocation undone, adjusted delta stored) and the terminal "
         "free list written back after a sweep; every removal of a node from a unique table reaches the release of the removed edge on all non-unwind paths (E-LIN.forget); every function that builds an owned edge out of a raw id/pointer is inventoried and the copying ones increment a count on every path first (E-LIN.mint). Free thresholds of reference counts are the 11 reviewed comparisons (E-LIN.rcconst); session-end hand-over and the allocation mark (E-FREELIST.handover/.mark); level_swap removes dead old children exactly once (E-TABLE.swap). try_remove_node reaches the table removal only with previous count 2, prepared manager and re-read count 1 (E-LIN.rcguard); terminal / inner-node discrimination without off-by-one or flipped tests in both managers (E-CANON.idsplit/.ptrsplit); tag-bit arithmetic of pointer-based edges (E-PTR.tagbits); return_preallocated links the rest of a chunk correctly (E-FREELIST.link). Free lists end in 0 everywhere (E-FREELIST.sentinel), the thread-local slot state is used only when bound to this store (E-FREELIST.binding), node-count deltas are added (E-FREELIST.countsign). Necessary conditions of exact reference counts: no owned edge is dropped by the "
         "compiler instead of being released through the manager, on any path incl. every `?`/out-of-memory path; no slot is on two "
         "free lists. Exactness over histories is not decided.",
         "MIR drop-terminator typestate lint (rustc_private driver) + move-only dataflow + who-may-call", "3.1, 3.8, 3.5, 4 C05"),
 "C03": ("E-TABLE.step for ZBDD restrict / restrict_base (the reviewed direct get_or_insert site: non-empty hi decided semantically, right level view). E-UNITS + E-UNITS.pre + E-TABLE.reduce + E-CANON (key, funnel, sites, swap) + E-WHO + E-RAW + E-PERM: unit analysis (VarNo vs LevelNo, both u32 aliases) over all bodies of the managers, "
         "oxidd-reorder and the rules crates, seeded from the declared signatures; inside level_swap, stale stored level numbers "
         "vs positions; all 12 reduce functions interpreted (no redundant node, BCDD then-edge untagged, node inserted at the level "
         "it is created for); set_child before insert and relabel before insert in level_swap; only oxidd-reorder may call the "
         "level-invariant-breaking primitives; probe-chain integrity of the per-level open-addressing table (a cut chain "
         "yields a second node with identical children); the loop invariant of set_var_order's level-permutation step. E-TABLE.swap (level_swap's per-node body: relabelling, placement in the right level table, children from the new lower level or the old upper level) and E-VLM (var/level maps mutually inverse). Necessary for 'every node is listed in the level it reports' and 'children on lower levels' after a "
         "reordering; does not decide uniqueness/reducedness over histories.",
         "dimension (unit) analysis over type-checked HIR + HIR table interpretation + who-may-call", "3.10, 3.3, 3.5, 4 C03"),
 "C06": ("E-CACHE.key: EntryGuard get / set / clear interpreted on a model entry (a hit exactly for the stored operator, operand lists and value counts; 10 single-component deviations miss). Key pairing is binding-aware (a later `let` shadowing a key operand is another key). pre_gc clears each entry through its held guard (lock -> EntryGuard::clear -> forget). E-CACHE + E-CACHE.dm + E-CACHE.substid + E-EVENT + E-WHO + E-TABLE tags: get/add key pairing, memoised value = returned value, injective and "
         "name-consistent computed tags, pairwise disjoint tag sets per rules crate; the direct-mapped cache compares and hashes "
         "all key parts, never blocks on the operation path and keeps entries locked between pre_gc and post_gc; gc/reorder/"
         "add_vars* of both managers emit the invalidation events in order on every path; substitution ids (the cache key of "
         "substitute) come from one atomic counter wider than the id, range-checked before narrowing. Decides 'never served for another key' "
         "and 'does not outlive gc/reorder' structurally, not eviction-independence as behaviour.",
         "HIR key-table extraction + MIR dominance/post-dominance rules", "3.2, 3.5, 4 C06"),
 "C12": ("E-SAT(.scale) + E-CARRY + E-POST(.mapusers) + E-EVENT: all MIR paths of SatCountCache::clear_if_invalid re-establish both "
         "label fields and clear on mismatch; clear_if_invalid dominates the counting recursion in every sat_count_edge; "
         "gc_count is bumped by gc and reorder; E-SAT: sat_count_edge::inner (BDD, BCDD, ZBDD) interpreted with symbolic numbers "
         "(terminal base cases, count(node) = (count(c0)+count(c1)) >> 1 over the cofactors seen through the complement tag, "
         "memoisation under the looked-up key, distinct keys for an edge and its complement); E-CARRY: no computed carry of "
         "Natural's multi-digit addition is overwritten unread; subtractions involving sat_count_edge's `vars` are guarded and no "
         "number type uses checked_shl as an overflow test; SatCountCache::map is touched by its owner and sat_count_edge::inner only. Natural's unnormalised digit view is read only by the two reviewed functions (E-NUM.rawview); the scale-down / scale-up of sat_count_edge are taken under one condition (E-SAT.scale.pair); the substrate rules (live nodes, fresh caches, var/level maps) apply. "
         "The exactness of the number types beyond that is not decided.",
         "HIR interpretation with symbolic numbers + MIR path enumeration / liveness", "3.5, 3.11, 4 C12"),
 "C07": ("E-LOCK + E-FREELIST + E-CACHE.dm + E-EVENT + E-PERM.blocked + E-DBG (+E-LIN/E-WRAP on the parallel code): lock-order acyclicity over all lock classes, "
         "minimal memory orderings of the rc / lock protocols, rc re-read under the level lock, Send/Sync bounds of every unsafe "
         "impl, move-only hand-over of thread-local free lists, non-blocking cache on the operation path and locked cache during "
         "gc, the gc bracket (try_lock, epoch bump, pre_gc, level sweeps, terminal sweep, post_gc, unlock) on every path of both "
         "managers, cache-entry guards created only after their lock was acquired, the position-blocking protocol of the concurrent "
         "bubble sort (typestate analysis along all 24 paths of the worker's swap loop), no side effect inside a debug assertion, "
         "MT wrappers reach the same algorithm instances. The slot array's allocation mark is written by get_slot_from_shared only and only grows (E-FREELIST.mark: two threads never receive the same chunk); a position of the concurrent bubble sort is taken only when not blocked (E-PERM.acquire); reference-count free thresholds are the reviewed ones (E-LIN.rcconst); the MT function types forward non-recursive operations to the sequential ones (E-WRAP.delegate). These are necessary conditions (no deadlock by lock order, the "
         "stated happens-before edges exist); equivalence to a sequential execution over schedules is NOT decided.",
         "lock-order graph + atomic-ordering table + MIR dataflow rules", "3.6, 4 C07"),
 "C08": ("E-UNITS.pre + E-UNITS + E-LIN + E-CANON.swap + E-WHO + E-PERM(.blocked) + E-TABLE.skip + E-EVENT on oxidd-reorder: level_swap's stale-number discipline (compare stored numbers with "
         "_pre parameters only, create/relabel nodes with the stale number of their level), no var/level mix-ups, no owned edge "
         "dropped by the compiler, children rewritten before re-insertion (hash under the final key), unchecked insertions "
         "only, gated entry points; the level-permutation loop of set_var_order_common advances only on the element-in-place edge "
         "(loop invariant) and swaps its three tables together; DiagramRules::skipped_cofactor of every kind agrees with the kind's "
         "semantics of a skipped level (zero-suppressed for ZBDDs) and level_swap uses it; Manager::reorder brackets the closure "
         "and bumps the gc epoch on every path; the parallel relabelling pass builds its work list from level positions, not from stale numbers (E-PERM.relabel). E-TABLE.swap: the per-node body of level_swap interpreted on a model store (86 situations: the node denotes the same function before and after under the kind's skipped-level semantics; placement; reuse of an equal node; cleanup); E-PERM.acquire (a position is taken only when not blocked); E-VLM; E-RAW; E-TAUT. Does not decide that functions are preserved.",
         "dimension (unit) analysis over HIR + MIR drop lint + ordering/who-may-call rules", "3.10, 3.1, 3.8, 3.5, 4 C08"),
 "C13": ("E-TABLE.pick + E-UNITS + E-POST.mapusers: one step of pick_cube_edge / pick_cube_dd_edge / pick_cube_dd_set_edge (BDD and BCDD) interpreted over a "
         "structured abstract node: a forced branch (one child = false) is taken without consulting the choice, otherwise the choice "
         "/ the literal's polarity decides exactly once, the literal-set cursor advances past skipped literals; pick_cube's "
         "level->variable conversions carry the declared units; pick_cube_edge writes the cube entry of level_to_var(level) with the "
         "branch taken; the count cache that weights pick_cube_uniform is read through sat_count_edge only. The ZBDD pick_cube_edge / pick_cube_dd_edge steps are interpreted likewise (don't care, forced, chosen; zero-suppressed result shape). add_literal_to_cube is interpreted ((+-v) & sub, normal form); the uniform choice is rng < count(then) / (count(then) + count(else)) as a symbolic term (E-TABLE.pick.uniform); the count cache's epoch bumps (E-EVENT). Does not decide that the "
         "cube is an implicant, nor uniformity.",
         "abstract interpretation of HIR + dimension (unit) analysis", "3.3, 3.10, 4 C13"),
 "C14": ("E-LIN + E-OOM + E-FREELIST(.count,.term) + E-EVENT.gc-order + E-DBG: E-LIN restricted to error exits: on every `?`/Err path of the rules crates, oxidd-dump, oxidd-reorder, the managers "
         "and the FFI crate no owned edge is dropped by the compiler, i.e. everything acquired is released through a guard or "
         "the manager; AllocResult is unwrapped only where allocation cannot fail (static terminals) and process::abort is reached only "
         "from reviewed sites (2 recorded known findings: level_swap and ZBDDCache::post_reorder_mut abort on OOM); gc sweeps terminals "
         "after all levels (one collection frees what a retry needs), a failed allocation does not stay counted, the terminal free "
         "list is written back after a sweep; the slot allocator reports OutOfMemory only after consulting the shared free lists. A session end returns parked free slots unless all three thread-local cells were inspected (E-FREELIST.handover); the allocation mark never moves back (E-FREELIST.mark). Does not decide "
         "state validity after failure.",
         "MIR drop-terminator typestate lint + call-site inventory", "3.1, 3.9, 4 C14"),
 "C09": ("E-WRAP + E-TABLE.{reduce,shortcut,step,skip}(zbdd) + E-UNITS + E-CACHE: the BooleanVecSet wrappers and the Boolean view of ZBDDs "
         "are interpreted over abstract operands and must denote the set operation they are named for (incl. subset::<VAL> tags and diff "
         "operand order); the zero-suppression reduce functions and the shortcut prefixes of union/intsec/diff/symm_diff are "
         "interpreted against set algebra; units and cache key pairing of the zbdd rules crate; E-TABLE.step: the recursive step of "
         "union/intsec/diff/symm_diff, subset0/subset1/change and apply_ite interpreted under zero-suppressed semantics in every "
         "level configuration, incl. restrict of the Boolean-function view (cubes with positive / negative / don't-care levels); "
         "skipped-level cofactors are zero-suppressed; E-TAUT: the tautology chain lookup and its rebuild (Base first, bottom-up, one don't-care node per level); make_node reduces at the singleton's level with (hi, lo) in order; restrict_base creates one don't-care node per skipped level (a loop over the level range). E-EVAL: eval_edge interpreted for one iteration of its argument loop (the value given last counts, injective encodings, no other entry touched) and one call of its walk (child for the stored value; complement flag / counter / terminals), plus the initial call. make_node and consistency after add_vars beyond the cache events are not decided.",
         "abstract interpretation of HIR wrappers", "3.4, 4 C09"),
 "C10": ("E-TABLE + E-WRAP: mtbdd::terminal_bin enumerated over {NaN,0,1,c1,c2,x,y}^2 for 6 operators and all comparison "
         "outcomes, result term compared with the pointwise operator on a grid of extended reals with NaN (neutral/absorbing "
         "shortcuts, operand swaps, operator tag used for recursion and caching); PseudoBooleanFunction wrappers wired to the "
         "operator they are named for; I64 Add/Sub/Mul/Div interpreted over sign classes with checked_* = None exactly on "
         "overflow-capable sign pairs (saturation to the infinity of the exact result's sign); cache key pairing; E-TABLE.step: the "
         "recursive step of apply_bin (6 operators, incl. terminal operands), apply_ite and restrict over extended reals with NaN; "
         "E-WHO: terminals are freed by Manager::gc only (the apply cache holds uncounted terminal edges); every F64 constructor normalises. E-EVAL: eval_edge interpreted for one iteration of its argument loop (the value given last counts, injective encodings, no other entry touched) and one call of its walk (child for the stored value; complement flag / counter / terminals), plus the initial call.",
         "abstract interpretation of HIR case tables", "3.3, 3.4, 4 C10"),
 "C11": ("E-TABLE + E-WRAP: tdd::terminal_bin enumerated over {F,U,T,x,y}^2 for 8 operators and compared with the Kleene / "
         "Lukasiewicz tables named in the property; TVLFunction wrappers and default constant constructors (f/t/u) forward to "
         "the method they are named for; apply_ite_rec's shortcut prefix interpreted against the pointwise decision list; cache "
         "key pairing; E-TABLE.step: the ternary recursive step of apply_bin (8 operators), apply_ite_rec and apply_not over "
         "three-valued atoms and variables; E-UNITS incl. derived units (eval's packed slot addressing uses level-derived index "
         "and shift). E-EVAL: eval_edge interpreted for one iteration of its argument loop (the value given last counts, injective encodings, no other entry touched) and one call of its walk (child for the stored value; complement flag / counter / terminals), plus the initial call.", "abstract interpretation of HIR case tables", "3.3, 3.4, 3.12, 4 C11"),
}
checks = []
for pid, (text, tech, ref) in sorted(CLAIMS.items()):
    checks.append({"property_id": pid, "quick_cmd": "./check %s --tier quick" % pid,
                   "thorough_cmd": "./check %s --tier thorough" % pid,
                   "evidence_file": "evidence/%s.json" % pid, "engine": "oxfacts+rules",
                   "replay_cmd_template": "./check %s --tier quick   # the key after '#' in {path} names the violating construct" % pid,
                   "level_claimed": {"category": "other", "text": text, "design_ref": "DESIGN.md " + ref},
                   "level_note": NOTE, "technique": "static analysis: " + tech})
NA = {
 "C18": "circuit-simplification equivalence and parser totality quantify over input values (indices, counts, byte contents); no structural necessary condition exists that would not also fire on behaviour-preserving edits (DESIGN.md section 6)",
}
m = {"version": 1,
     "setup_cmd": "cd /verif/oxfacts && CARGO_NET_OFFLINE=true cargo +nightly build --release --offline",
     "hooks": {"guard": "oxidd_verif", "enable": "none: static analysis needs no instrumentation; no hook commits exist",
               "baseline_off_cmd": "cd /repo && cargo test --workspace --no-fail-fast --offline",
               "source_commits": [], "add_only": True},
     "engines": [{"name": "oxfacts+rules", "path": "oxfacts/ , rules/", "serves_properties": sorted(CLAIMS),
                  "kind_free_text": "rustc_private fact extractor (type-checked HIR, drop-elaborated MIR, resolved callees) "
                                    "injected into cargo +nightly check; python rules and abstract interpreters over the facts"}],
     "checks": checks,
     "notes": "Static analysis only; see DESIGN.md. Genuine defects found on the pinned tree were repaired by 'fix:' commits in /repo and are listed in known_findings.json.",
     "not_applicable": [{"property_id": i, "reason": NA.get(i, "check not yet implemented in this commit (see DESIGN.md section 4 for the planned clause)")}
                        for i in ids if i not in CLAIMS]}
json.dump(m, open(os.path.join(V, 'MANIFEST.json'), 'w'), indent=1)
print("claimed:", sorted(CLAIMS))
