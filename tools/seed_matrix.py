#!/usr/bin/env python3
"""Runs every registered quick check against every seeded change (in a scratch worktree, never in /repo)
and writes seeded/MATRIX.json + seeded/MATRIX.md.  usage: seed_matrix.py [seed-dir ...]"""
import json, os, subprocess, sys, glob, shutil, tempfile
V = os.path.dirname(os.path.dirname(os.path.abspath(__file__)))
man = json.load(open(os.path.join(V, "MANIFEST.json")))
props = [c["property_id"] for c in man["checks"]]
seeds = [os.path.abspath(a) for a in sys.argv[1:]] or sorted(glob.glob(os.path.join(V, "seeded", "*", "")))
wt = tempfile.mkdtemp(prefix="oxidd-matrix-")
os.rmdir(wt)
subprocess.check_call(["git", "-C", "/repo", "worktree", "add", "--detach", wt, "HEAD", "-q"])
head = subprocess.check_output(["git", "-C", "/repo", "rev-parse", "--short", "HEAD"], text=True).strip()
ev = tempfile.mkdtemp(prefix="oxidd-matrix-ev-")
env = dict(os.environ, OXIDD_REPO=wt, VERIF_EVIDENCE_DIR=ev)
mpath = os.environ.get("MATRIX_JSON") or os.path.join(V, "seeded", "MATRIX.json")
matrix = json.load(open(mpath)) if os.path.exists(mpath) else {}
try:
    for sd in seeds:
        sd = sd.rstrip("/")
        name = os.path.basename(sd)
        patch = os.path.join(sd, "patch.diff")
        if not os.path.exists(patch):
            continue
        r = subprocess.run(["git", "-C", wt, "apply", patch], capture_output=True, text=True)
        if r.returncode != 0:
            matrix[name] = {"error": "patch does not apply: " + r.stderr[:200]}
            continue
        fired, brk = {}, {}
        for p in props:
            r = subprocess.run([os.path.join(V, "check"), p, "--tier", "quick"], capture_output=True, text=True, env=env, cwd=V)
            keys = [l.split("#", 1)[1] for l in r.stdout.splitlines() if l.startswith("VIOLATION") and "#" in l]
            broken = [k for k in keys if k.startswith("CHECK-BROKEN")]
            keys = [k for k in keys if not k.startswith("CHECK-BROKEN")]
            if broken:
                brk[p] = broken[:1]
            if keys:
                fired[p] = keys[:4]
        matrix[name] = {"fired": fired, "repo_head": head}
        if brk:
            matrix[name]["check_could_not_run"] = brk
        subprocess.check_call(["git", "-C", wt, "checkout", "--", "."])
        print(name, "->", {k: len(v) for k, v in fired.items()} or "MISSED", flush=True)
        json.dump(matrix, open(mpath, "w"), indent=1, sort_keys=True)
finally:
    subprocess.call(["git", "-C", "/repo", "worktree", "remove", "--force", wt])
    shutil.rmtree(ev, ignore_errors=True)
lines = ["| seeded change | breaks | caught by (rule keys) |", "|---|---|---|"]
for name in sorted(matrix):
    meta = {}
    try:
        meta = json.load(open(os.path.join(V, "seeded", name, "meta.json")))
    except OSError:
        pass
    f = matrix[name].get("fired", {})
    lines.append("| %s | %s | %s |" % (name, meta.get("property", "?"),
                 "; ".join("%s: %s" % (p, ", ".join(k.split(":")[0] for k in ks[:2])) for p, ks in sorted(f.items())) or "**not caught**"))
if not os.environ.get("MATRIX_JSON"):
    open(os.path.join(V, "seeded", "MATRIX.md"), "w").write("\n".join(lines) + "\n")
