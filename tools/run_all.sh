#!/bin/bash
# runs every registered quick check (or tier $1) and prints one line per property
cd "$(dirname "$0")/.."
tier=${1:-quick}
rc=0
for p in $(python3 -c "import json;print(' '.join(c['property_id'] for c in json.load(open('MANIFEST.json'))['checks']))"); do
  out=$(./check $p --tier $tier); r=$?
  echo "$out" | tail -1
  [ $r -ne 0 ] && { rc=1; echo "$out" | grep -A1 "^VIOLATION" | head -6; }
done
exit $rc
