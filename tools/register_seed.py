#!/usr/bin/env python3
"""register a confirmed seed from /tmp/seedout/<id> into seeded/<id>/ : register_seed.py <id> <property> <what> <needs>"""
import json, os, shutil, sys
sid, prop, what, needs = sys.argv[1:5]
src = "/tmp/seedout/" + sid
c = json.load(open(src + "/confirm.json"))
assert c["patch_applies"] and c["demo_without_patch_exit"] == 0 and c["demo_with_patch_exit"] != 0 and c["suite_with_patch_exit"] == 0, c
V = os.path.dirname(os.path.dirname(os.path.abspath(__file__)))
dst = os.path.join(V, "seeded", sid)
os.makedirs(dst, exist_ok=True)
for f in ("patch.diff", "seed_demo.rs", "NOTES.md"):
    shutil.copy(os.path.join(src, f), dst)
crate = {"C17": "linear-hashtbl", "C19": "oxidd-ffi-c"}.get(prop, "oxidd")
feat = " --features tdd" if prop == "C11" else ""
meta = {"property": prop, "what": what, "needs_to_manifest": needs,
        "origin": "independent sub-agent (later round) given only the property text, a scratch worktree and the names of the functions changed by earlier seeds (to avoid)",
        "demo_placement": "crates/%s/tests/seed_demo.rs" % crate,
        "demo_cmd": "cargo test -p %s%s --test seed_demo --offline" % (crate, feat),
        "confirmed": {"repo_head": c["repo_head"], "patch_applies": True, "demo_without_patch": "pass",
                      "demo_with_patch": "fail (exit %d)" % c["demo_with_patch_exit"], "full_suite_with_patch": "pass",
                      "how": "scratch worktree of /repo HEAD: demo copied in, run; git apply patch.diff, demo run again; cargo test --workspace --no-fail-fast --offline with the patch"}}
json.dump(meta, open(os.path.join(dst, "meta.json"), "w"), indent=1)
print("registered", sid)
