#!/usr/bin/env python3
"""rewrites the block between <!-- MATRIX:BEGIN --> and <!-- MATRIX:END --> in DESIGN.md from seeded/MATRIX.json"""
import json, os, re
V = os.path.dirname(os.path.dirname(os.path.abspath(__file__)))
m = json.load(open(os.path.join(V, "seeded", "MATRIX.json")))
rows = ["| seed | breaks | change | caught by its property's check through | also fires |", "|---|---|---|---|---|"]
missed = []
for k in sorted(m):
    meta = json.load(open(os.path.join(V, "seeded", k, "meta.json")))
    p = meta["property"]
    fired = m[k].get("fired", {})
    own = sorted({re.split(r"[:\[]", x)[0] for x in fired.get(p, [])})
    others = sorted(q for q in fired if q != p)
    what = meta.get("what", "")
    what = what if len(what) <= 110 else what[:107] + "..."
    if not own:
        missed.append(k)
    rows.append("| %s | %s | %s | %s | %s |" % (k, p, what.replace("|", "/"), ", ".join(own) or "**not caught**", " ".join(others)))
block = "\n".join(rows) + "\n\n%d seeded changes, %d caught by the check of the property they were written against%s.\n" % (
    len(m), len(m) - len(missed), ("; not caught: " + ", ".join(missed)) if missed else "")
p = os.path.join(V, "DESIGN.md")
s = open(p).read()
s = re.sub(r"<!-- MATRIX:BEGIN -->.*?<!-- MATRIX:END -->", "<!-- MATRIX:BEGIN -->\n" + block + "<!-- MATRIX:END -->", s, flags=re.S)
open(p, "w").write(s)
print(len(m), "rows;", "missed:", missed)
