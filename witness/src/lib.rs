//! Type-level witnesses for properties C01/C05/C19: each `compile_fail` block has a compiling twin that differs
//! only in the offending line, so that a witness cannot pass because its paths are merely wrong.
//! Run with `cargo +nightly test --doc --offline` (the stable toolchain ignores the error codes).

/// An owned edge cannot be duplicated without the manager (`Edge: !Clone`): reference counts stay exact only
/// because every copy goes through `Manager::clone_edge`.
///
/// ```compile_fail,E0277
/// use oxidd::{Function, Manager};
/// fn needs_clone<T: Clone>(_: &T) {}
/// fn witness(f: &oxidd::bdd::BDDFunction) {
///     f.with_manager_shared(|_manager, edge| needs_clone(edge)); // `Edge` does not implement `Clone`
/// }
/// ```
///
/// twin (compiles):
/// ```no_run
/// use oxidd::{Function, Manager};
/// fn needs_clone<T: Clone>(_: &T) {}
/// fn witness(f: &oxidd::bdd::BDDFunction) {
///     f.with_manager_shared(|manager, edge| { let e = manager.clone_edge(edge); manager.drop_edge(e) });
///     needs_clone(f); // the *function handle* is Clone (it goes through the manager)
/// }
/// ```
pub struct EdgeIsNotClone;

/// The same at the trait level: generic code over `M: Manager` cannot clone an edge by itself.
///
/// ```compile_fail,E0308
/// fn dup<M: oxidd_core::Manager>(e: &M::Edge) -> M::Edge { e.clone() }
/// ```
///
/// ```no_run
/// fn dup<M: oxidd_core::Manager>(m: &M, e: &M::Edge) -> M::Edge { m.clone_edge(e) }
/// ```
pub struct GenericEdgeIsNotClone;

/// A `Borrowed` edge cannot outlive the edge it was borrowed from.
///
/// ```compile_fail,E0515
/// use oxidd_core::{Edge, util::Borrowed};
/// fn escape<'a, E: Edge>(e: E) -> Borrowed<'a, E> { e.borrowed() }
/// ```
///
/// ```no_run
/// use oxidd_core::{Edge, util::Borrowed};
/// fn fine<'a, E: Edge>(e: &'a E) -> Borrowed<'a, E> { e.borrowed() }
/// ```
pub struct BorrowedDoesNotOutliveEdge;

/// Edges are branded with the manager's invariant `'id`: an edge of one manager cannot be used with another
/// manager, and cannot escape the `with_manager_*` closure.
///
/// ```compile_fail,E0521
/// use oxidd::{Function, Manager, ManagerRef, BooleanFunction};
/// fn witness(a: &oxidd::bdd::BDDManagerRef, f: &oxidd::bdd::BDDFunction) {
///     f.with_manager_shared(|_m1, edge| {
///         a.with_manager_shared(|m2| { let e = m2.clone_edge(edge); m2.drop_edge(e) }) // edge of another brand
///     });
/// }
/// ```
///
/// ```no_run
/// use oxidd::{Function, Manager, ManagerRef, BooleanFunction};
/// fn witness(a: &oxidd::bdd::BDDManagerRef, f: &oxidd::bdd::BDDFunction) {
///     f.with_manager_shared(|m1, edge| {
///         a.with_manager_shared(|_m2| ());
///         let e = m1.clone_edge(edge); m1.drop_edge(e)
///     });
/// }
/// ```
pub struct EdgesAreBranded;

/// An edge cannot escape the closure in which the manager is locked.
///
/// ```compile_fail,E0521
/// use oxidd::{Function, Manager};
/// fn witness(f: &oxidd::bdd::BDDFunction) {
///     let mut leaked = None;
///     f.with_manager_shared(|manager, edge| { leaked = Some(manager.clone_edge(edge)); });
///     drop(leaked);
/// }
/// ```
///
/// ```no_run
/// use oxidd::{Function, Manager};
/// fn witness(f: &oxidd::bdd::BDDFunction) {
///     let mut count = None;
///     f.with_manager_shared(|manager, edge| { let e = manager.clone_edge(edge); manager.drop_edge(e); count = Some(1); });
///     drop(count);
/// }
/// ```
pub struct EdgesDoNotEscape;
