//! ZBDD `sat_count()` with floating point numbers in managers with more than
//! 1024 levels: intermediate results must not overflow if the final result is
//! representable. This is also the prerequisite for unbiased
//! `pick_cube_uniform()` results.
//!
//! Place this file at `crates/oxidd/tests/hunt_2.rs` and run
//! `cargo test --offline -p oxidd --test hunt_2`
//!
//! The last test (`pick_cube_uniform_1100_vars`) additionally requires
//! `fix_1.diff`, run it via
//! `cargo test --offline -p oxidd --test hunt_2 -- --ignored`

use std::hash::BuildHasherDefault;

use oxidd::util::{FxHasher, OptBool, Rng, SatCountCache, num::F64};
use oxidd::zbdd::ZBDDFunction;
use oxidd::{BooleanFunction, Manager, ManagerRef};

type Cache = SatCountCache<F64, BuildHasherDefault<FxHasher>>;

const LEVELS: u32 = 1100;

#[test]
fn sat_count_tautology() {
    let mref = oxidd::zbdd::new_manager(1 << 14, 1 << 10, 1);
    mref.with_manager_exclusive(|m| {
        m.add_vars(LEVELS);
    });
    let t = mref.with_manager_shared(|m| ZBDDFunction::t(m));
    let mut cache = Cache::default();
    // ⊤ over 10 variables has 2^10 models
    assert_eq!(t.sat_count(10, &mut cache).0, 1024.0);
    assert_eq!(t.sat_count(1000, &mut cache).0, 1000f64.exp2());
    // the exact result is not representable
    assert_eq!(t.sat_count(LEVELS, &mut cache).0, f64::INFINITY);
}

#[test]
fn sat_count_or() {
    let mref = oxidd::zbdd::new_manager(1 << 14, 1 << 10, 1);
    mref.with_manager_exclusive(|m| {
        m.add_vars(LEVELS);
    });
    let (x0, x1) = mref.with_manager_shared(|m| {
        (
            ZBDDFunction::var(m, 0).unwrap(),
            ZBDDFunction::var(m, 1).unwrap(),
        )
    });
    let f = x0.or(&x1).unwrap();

    let mut cache = Cache::default();
    cache.cache_all = true;
    // x0 ∨ x1 is true for 3/4 of all assignments
    assert_eq!(f.sat_count(1000, &mut cache).0, 0.75 * 1000f64.exp2());
    assert_eq!(f.sat_count(2, &mut cache).0, 3.0);

    // Adding a variable changes the semantics of `f` to `(x0 ∨ x1) ∧ ¬x1100`,
    // but neither triggers a garbage collection nor changes `vars`. The cache
    // must not mix up values for 1100 and 1101 levels.
    assert_eq!(f.sat_count(1000, &mut cache).0, 0.75 * 1000f64.exp2());
    mref.with_manager_exclusive(|m| {
        m.add_vars(1);
    });
    assert_eq!(f.sat_count(1000, &mut cache).0, 0.375 * 1000f64.exp2());
}

/// Same as in `hunt_1.rs`, but for ZBDDs
#[test]
#[ignore = "requires fix_1.diff as well"]
fn pick_cube_uniform_1100_vars() {
    const SAMPLES: u32 = 3000;

    let mref = oxidd::zbdd::new_manager(1 << 14, 1 << 10, 1);
    mref.with_manager_exclusive(|m| {
        m.add_vars(LEVELS);
    });
    let (x0, x1) = mref.with_manager_shared(|m| {
        (
            ZBDDFunction::var(m, 0).unwrap(),
            ZBDDFunction::var(m, 1).unwrap(),
        )
    });
    let mut cache = Cache::default();
    let mut rng = Rng::new_seed(0x5eed);

    let f = x0.xor(&x1).unwrap();
    let mut x0_true = 0;
    for _ in 0..SAMPLES {
        let cube = f.pick_cube_uniform(&mut cache, &mut rng).unwrap();
        match (cube[0], cube[1]) {
            (OptBool::True, OptBool::False) => x0_true += 1,
            (OptBool::False, OptBool::True) => {}
            c => panic!("{c:?} is not an implicant of x0 ⊕ x1"),
        }
        assert!(cube[2..].iter().all(|v| *v == OptBool::None));
    }
    // Expected: 1500, standard deviation: 27.4. We allow for more than ±10 σ.
    assert!(
        (1200..=1800).contains(&x0_true),
        "x0 ⊕ x1: x0 ∧ ¬x1 was picked {x0_true} times out of {SAMPLES}, ¬x0 ∧ x1 {} times",
        SAMPLES - x0_true
    );
}
