//! `pick_cube_uniform` must sample the models of a function without bias, also
//! in managers with many variables.
//!
//! Place this file at `crates/oxidd/tests/hunt_1.rs` and run
//! `cargo test --offline -p oxidd --test hunt_1`

use std::hash::BuildHasherDefault;

use oxidd::bcdd::BCDDFunction;
use oxidd::bdd::BDDFunction;
use oxidd::util::{FxHasher, OptBool, Rng, SatCountCache, num::F64};
use oxidd::{BooleanFunction, Function, Manager, ManagerRef};

type Cache = SatCountCache<F64, BuildHasherDefault<FxHasher>>;

const SAMPLES: u32 = 3000;

/// Sample `x0 ⊕ x1` and `x0 ∨ x1` in a manager with `nvars` variables.
///
/// `x0 ⊕ x1` has two cubes, `x0 ∧ ¬x1` and `¬x0 ∧ x1`, each covering exactly
/// half of the models, so each must be picked about half of the time.
///
/// `x0 ∨ x1` has the cubes `x0` (2/3 of the models) and `¬x0 ∧ x1` (1/3 of the
/// models).
fn sampled_uniformly<MR: ManagerRef, F: BooleanFunction<ManagerRef = MR>>(mref: MR, nvars: u32)
where
    for<'id> F: Function<Manager<'id> = MR::Manager<'id>>,
{
    mref.with_manager_exclusive(|m| {
        m.add_vars(nvars);
    });
    let (x0, x1) = mref.with_manager_shared(|m| (F::var(m, 0).unwrap(), F::var(m, 1).unwrap()));
    let mut cache = Cache::default();
    let mut rng = Rng::new_seed(0x5eed);

    let f = x0.xor(&x1).unwrap();
    let mut x0_true = 0;
    for _ in 0..SAMPLES {
        let cube = f.pick_cube_uniform(&mut cache, &mut rng).unwrap();
        assert_eq!(cube.len(), nvars as usize);
        match (cube[0], cube[1]) {
            (OptBool::True, OptBool::False) => x0_true += 1,
            (OptBool::False, OptBool::True) => {}
            c => panic!("{c:?} is not an implicant of x0 ⊕ x1"),
        }
        assert!(cube[2..].iter().all(|v| *v == OptBool::None));
    }
    // Expected: 1500, standard deviation: 27.4. We allow for more than ±10 σ.
    assert!(
        (1200..=1800).contains(&x0_true),
        "x0 ⊕ x1, {nvars} variables: x0 ∧ ¬x1 was picked {x0_true} times out of {SAMPLES}, \
        ¬x0 ∧ x1 {} times",
        SAMPLES - x0_true
    );

    let f = x0.or(&x1).unwrap();
    let mut x0_true = 0;
    for _ in 0..SAMPLES {
        let cube = f.pick_cube_uniform(&mut cache, &mut rng).unwrap();
        match (cube[0], cube[1]) {
            (OptBool::True, OptBool::None) => x0_true += 1,
            (OptBool::False, OptBool::True) => {}
            c => panic!("{c:?} is not an expected implicant of x0 ∨ x1"),
        }
        assert!(cube[2..].iter().all(|v| *v == OptBool::None));
    }
    // Expected: 2000, standard deviation: 25.8. We allow for more than ±10 σ.
    assert!(
        (1700..=2300).contains(&x0_true),
        "x0 ∨ x1, {nvars} variables: x0 was picked {x0_true} times out of {SAMPLES}, \
        ¬x0 ∧ x1 {} times",
        SAMPLES - x0_true
    );
}

#[test]
fn bdd_1000_vars() {
    sampled_uniformly::<_, BDDFunction>(oxidd::bdd::new_manager(1 << 14, 1 << 10, 1), 1000);
}
#[test]
fn bdd_1030_vars() {
    sampled_uniformly::<_, BDDFunction>(oxidd::bdd::new_manager(1 << 14, 1 << 10, 1), 1030);
}
#[test]
fn bdd_3000_vars() {
    sampled_uniformly::<_, BDDFunction>(oxidd::bdd::new_manager(1 << 14, 1 << 10, 1), 3000);
}
#[test]
fn bcdd_1000_vars() {
    sampled_uniformly::<_, BCDDFunction>(oxidd::bcdd::new_manager(1 << 14, 1 << 10, 1), 1000);
}
#[test]
fn bcdd_1030_vars() {
    sampled_uniformly::<_, BCDDFunction>(oxidd::bcdd::new_manager(1 << 14, 1 << 10, 1), 1030);
}
#[test]
fn bcdd_3000_vars() {
    sampled_uniformly::<_, BCDDFunction>(oxidd::bcdd::new_manager(1 << 14, 1 << 10, 1), 3000);
}
