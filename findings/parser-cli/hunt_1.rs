//! Defect 1: `Circuit::simplify` does not report unknown inputs
//!
//! Place at crates/oxidd-parser/tests/hunt_1.rs and run
//! `cargo test --offline -p oxidd-parser --test hunt_1`

use oxidd_parser::{Circuit, GateKind, Literal, VarSet};

fn v(i: usize) -> Literal {
    Literal::from_input(false, i)
}
fn g(i: usize) -> Literal {
    Literal::from_gate(false, i)
}

fn simplify(
    n_inputs: usize,
    kind: GateKind,
    inputs: &[Literal],
) -> std::thread::Result<Result<(Circuit, Vec<Literal>), Literal>> {
    let mut c = Circuit::new(VarSet::new(n_inputs));
    c.push_gate(kind);
    c.push_gate_inputs(inputs.iter().copied());
    std::panic::catch_unwind(move || c.simplify([g(0)]))
}

#[test]
fn unknown_input_two_literals() {
    // The circuit has a single input (number 0), so input 1 is unknown
    for kind in [GateKind::And, GateKind::Or, GateKind::Xor] {
        let r = simplify(1, kind, &[v(0), v(1)]).expect("simplify() must not panic");
        assert_eq!(r.err(), Some(v(1)), "{kind:?}");
        let r = simplify(1, kind, &[v(0), !v(1)]).expect("simplify() must not panic");
        assert_eq!(r.err().map(|l| l.positive()), Some(v(1)), "{kind:?}");
    }
}

#[test]
fn unknown_input_three_literals() {
    // With three or more literals, the duplicate detection is used, which
    // indexes a bit set by the input number
    for kind in [GateKind::And, GateKind::Or, GateKind::Xor] {
        for unknown in [2, 3, 7, 100] {
            let r = simplify(2, kind, &[v(0), v(1), v(unknown)]);
            let r = r.unwrap_or_else(|_| panic!("simplify() panicked for {kind:?}, input {unknown}"));
            assert_eq!(r.err(), Some(v(unknown)), "{kind:?}");
        }
    }
}

#[test]
fn undef_literal() {
    let r = simplify(2, GateKind::And, &[v(0), Literal::UNDEF]).unwrap();
    assert_eq!(r.err(), Some(Literal::UNDEF));
}

#[test]
fn known_inputs_are_accepted() {
    for kind in [GateKind::And, GateKind::Or, GateKind::Xor] {
        let (c, map) = simplify(3, kind, &[v(0), v(1), v(2)]).unwrap().unwrap();
        assert_eq!(c.num_gates(), 1);
        assert_eq!(map, [g(0)]);
    }
}
