//! Defect 5 (consequence): oxidd-cli panics while constructing the decision
//! diagram for a circuit in which a gate becomes unreachable by simplification
//!
//! Place at crates/oxidd-cli/tests/hunt_5_cli.rs and run
//! `cargo test --offline -p oxidd-cli --test hunt_5_cli`

use std::process::Command;

#[test]
fn nnf_with_unreachable_gate() {
    // (a ∨ b) ∧ c ∧ ⊥  ∨  a ∧ c  ∨  b ∧ c   has 3 models over {a, b, c}
    let nnf = "nnf 10 12 3\nL 1\nL 2\nL 3\nO 0 2 0 1\nA 2 3 2\nO 0 0\nA 2 4 5\nA 2 0 2\nA 2 1 2\nO 0 3 6 7 8\n";
    let path = std::env::temp_dir().join(format!("hunt_5_cli_{}.nnf", std::process::id()));
    std::fs::write(&path, nnf).unwrap();
    for dd_type in ["bdd", "bcdd", "zbdd"] {
        for scheme in ["balanced", "left-deep"] {
            let out = Command::new(env!("CARGO_BIN_EXE_oxidd-cli"))
                .args(["-t", dd_type, "--inner-node-capacity", "4096"])
                .args(["--apply-cache-capacity", "1024", "--threads", "1"])
                .args(["--count-models", "--gate-build-scheme", scheme])
                .arg(&path)
                .output()
                .unwrap();
            let stdout = String::from_utf8_lossy(&out.stdout);
            let stderr = String::from_utf8_lossy(&out.stderr);
            assert!(
                out.status.success(),
                "oxidd-cli failed ({dd_type}, {scheme}):\n{stdout}\n{stderr}"
            );
            assert!(
                stdout.contains("model count: 3 "),
                "wrong model count ({dd_type}, {scheme}):\n{stdout}"
            );
        }
    }
    std::fs::remove_file(&path).ok();
}
