//! Defect 5: `Circuit::simplify` leaves unreachable gates in the new circuit
//!
//! Place at crates/oxidd-parser/tests/hunt_5.rs and run
//! `cargo test --offline -p oxidd-parser --test hunt_5`
//!
//! (See hunt_5_cli.rs for the consequence in oxidd-cli.)

use oxidd_parser::{Circuit, GateKind, Literal, VarSet};

fn v(i: usize) -> Literal {
    Literal::from_input(false, i)
}
fn g(i: usize) -> Literal {
    Literal::from_gate(false, i)
}

fn eval(c: &Circuit, l: Literal, assignment: usize) -> bool {
    let val = if l.positive() == Literal::FALSE {
        false
    } else if let Some(i) = l.get_input() {
        (assignment >> i) & 1 != 0
    } else {
        let gate = c.gate(l).expect("gate must exist");
        let mut vals = gate.inputs.iter().map(|&l| eval(c, l, assignment));
        match gate.kind {
            GateKind::And => vals.all(|b| b),
            GateKind::Or => vals.any(|b| b),
            GateKind::Xor => vals.fold(false, |a, b| a ^ b),
        }
    };
    val ^ l.is_negative()
}

/// Check that all gates in `c` are reachable from `roots`
fn check_all_reachable(c: &Circuit, roots: &[Literal]) {
    let mut reachable = vec![false; c.num_gates()];
    let mut stack: Vec<usize> = roots.iter().filter_map(|l| l.get_gate_no()).collect();
    while let Some(i) = stack.pop() {
        if !std::mem::replace(&mut reachable[i], true) {
            stack.extend(c.gate_for_no(i).unwrap().inputs.iter().filter_map(|l| l.get_gate_no()));
        }
    }
    if let Some(i) = reachable.iter().position(|r| !r) {
        panic!("gate {i} is not reachable from {roots:?} in {c:?}");
    }
}

#[test]
fn dominated_gate_becomes_unreachable() {
    // g0 = x0 ∧ x1, g1 = g0 ∧ ⊥ ≡ ⊥
    let mut c = Circuit::new(VarSet::new(2));
    c.push_gate(GateKind::And);
    c.push_gate_inputs([v(0), v(1)]);
    c.push_gate(GateKind::And);
    c.push_gate_inputs([g(0), Literal::FALSE]);
    let (s, map) = c.simplify([g(1)]).unwrap();
    assert_eq!(map[1], Literal::FALSE);
    check_all_reachable(&s, &[map[1]]);
    assert_eq!(s.num_gates(), 0);
}

#[test]
fn unreachable_gate_with_gate_input() {
    // The circuit from hunt_5_cli.rs:
    // g0 = x0 ∨ x1, g1 = g0 ∧ x2, g2 = or() ≡ ⊥, g3 = g1 ∧ g2 ≡ ⊥,
    // g4 = x0 ∧ x2, g5 = x1 ∧ x2, g6 = g3 ∨ g4 ∨ g5
    let mut c = Circuit::new(VarSet::new(3));
    c.push_gate(GateKind::Or);
    c.push_gate_inputs([v(0), v(1)]);
    c.push_gate(GateKind::And);
    c.push_gate_inputs([g(0), v(2)]);
    c.push_gate(GateKind::Or);
    c.push_gate(GateKind::And);
    c.push_gate_inputs([g(1), g(2)]);
    c.push_gate(GateKind::And);
    c.push_gate_inputs([v(0), v(2)]);
    c.push_gate(GateKind::And);
    c.push_gate_inputs([v(1), v(2)]);
    c.push_gate(GateKind::Or);
    c.push_gate_inputs([g(3), g(4), g(5)]);

    let (s, map) = c.simplify([g(6)]).unwrap();
    let root = map[6];
    for a in 0..8 {
        assert_eq!(eval(&s, root, a), eval(&c, g(6), a));
    }
    check_all_reachable(&s, &[root]);
    assert_eq!(s.num_gates(), 3);
    // gates that are still present must be mapped correctly
    for (old, &new) in map.iter().enumerate() {
        if new != Literal::UNDEF {
            for a in 0..8 {
                assert_eq!(eval(&s, new, a), eval(&c, g(old), a), "gate {old} -> {new:?}");
            }
        }
    }
}

#[test]
fn multiple_roots() {
    // g0 = x0 ∧ x1, g1 = g0 ∨ ⊤ ≡ ⊤, g2 = x0 ⊕ x1; roots g1, ¬g2
    let mut c = Circuit::new(VarSet::new(2));
    c.push_gate(GateKind::And);
    c.push_gate_inputs([v(0), v(1)]);
    c.push_gate(GateKind::Or);
    c.push_gate_inputs([g(0), Literal::TRUE]);
    c.push_gate(GateKind::Xor);
    c.push_gate_inputs([v(0), v(1)]);
    let roots = [g(1), !g(2)];
    let (s, map) = c.simplify(roots).unwrap();
    let new_roots = roots.map(|r| r.apply_gate_map(&map));
    assert_eq!(new_roots[0], Literal::TRUE);
    check_all_reachable(&s, &new_roots);
    assert_eq!(s.num_gates(), 1);
    for a in 0..4 {
        assert_eq!(eval(&s, new_roots[1], a), eval(&c, roots[1], a));
    }

    // if g0 is a root as well, it must be kept
    let roots = [g(1), !g(2), g(0)];
    let (s, map) = c.simplify(roots).unwrap();
    let new_roots = roots.map(|r| r.apply_gate_map(&map));
    check_all_reachable(&s, &new_roots);
    assert_eq!(s.num_gates(), 2);
    for (old, new) in roots.iter().zip(new_roots) {
        for a in 0..4 {
            assert_eq!(eval(&s, new, a), eval(&c, *old, a));
        }
    }
}
