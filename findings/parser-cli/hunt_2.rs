//! Defect 2: `Circuit::simplify` maps XOR gates without non-constant inputs
//! to the wrong constant
//!
//! Place at crates/oxidd-parser/tests/hunt_2.rs and run
//! `cargo test --offline -p oxidd-parser --test hunt_2`

use oxidd_parser::{Circuit, GateKind, Literal, VarSet};

const T: Literal = Literal::TRUE;
const F: Literal = Literal::FALSE;

fn simplify_xor(inputs: &[Literal]) -> Literal {
    let mut c = Circuit::new(VarSet::new(2));
    c.push_gate(GateKind::Xor);
    c.push_gate_inputs(inputs.iter().copied());
    let root = Literal::from_gate(false, 0);
    let (s, map) = c.simplify([root]).unwrap();
    assert_eq!(s.num_gates(), 0);
    map[0]
}

#[test]
fn constant_xor_gates() {
    // the empty XOR is false (like the empty OR), see also `X 0` in NNF files
    assert_eq!(simplify_xor(&[]), F);
    assert_eq!(simplify_xor(&[F]), F);
    assert_eq!(simplify_xor(&[T]), T);
    assert_eq!(simplify_xor(&[F, F]), F);
    assert_eq!(simplify_xor(&[F, T]), T);
    assert_eq!(simplify_xor(&[T, F]), T);
    assert_eq!(simplify_xor(&[T, T]), F);
    assert_eq!(simplify_xor(&[T, T, T]), T);
    assert_eq!(simplify_xor(&[T, F, T, F]), F);
}

#[test]
fn constant_xor_as_gate_input() {
    // g0 = xor(⊤), g1 = and(g0, x0) ≡ x0
    let mut c = Circuit::new(VarSet::new(1));
    c.push_gate(GateKind::Xor);
    c.push_gate_inputs([T]);
    c.push_gate(GateKind::And);
    c.push_gate_inputs([Literal::from_gate(false, 0), Literal::from_input(false, 0)]);
    let (s, map) = c.simplify([Literal::from_gate(false, 1)]).unwrap();
    assert_eq!(s.num_gates(), 0);
    assert_eq!(map[1], Literal::from_input(false, 0));
}
