//! Defect 10: The DIMACS parser computes `#clauses - 1` without checking for
//! `#clauses == 0` when a clause tree is given
//!
//! Place at crates/oxidd-parser/tests/hunt_10.rs and run
//! `cargo test --offline -p oxidd-parser --test hunt_10`

use oxidd_parser::ParseOptionsBuilder;

#[test]
fn clause_tree_with_zero_clauses() {
    let opts = ParseOptionsBuilder::default()
        .clause_tree(true)
        .build()
        .unwrap();
    for input in [
        b"c co [0]\np cnf 1 0\n".as_slice(),
        b"c co 0\np cnf 1 0\n1 0\n",
        b"c co [[0, 1], 2]\np cnf 4 0\n",
    ] {
        let res = std::panic::catch_unwind(|| oxidd_parser::dimacs::parse::<()>(&opts)(input).is_ok());
        let ok = res.unwrap_or_else(|_| {
            panic!("parser panicked for {:?}", String::from_utf8_lossy(input))
        });
        assert!(!ok, "the clause tree refers to a non-existing clause");
    }
}
