//! Defect 9: The tree parser for `c co <tree>` / `c vo <tree>` lines accepts
//! empty trees (`[]`)
//!
//! Place at crates/oxidd-parser/tests/hunt_9.rs and run
//! `cargo test --offline -p oxidd-parser --test hunt_9`

use oxidd_parser::{Literal, ParseOptionsBuilder, ProblemDetails};

#[test]
fn empty_clause_tree() {
    let opts = ParseOptionsBuilder::default()
        .clause_tree(true)
        .build()
        .unwrap();
    // CNF with the single clause x1. The clause tree does not mention clause 0.
    let res = oxidd_parser::dimacs::parse::<()>(&opts)(b"c co []\np cnf 1 1\n1 0\n");
    match res {
        Err(_) => {} // rejecting the empty tree is fine
        Ok((_, p)) => {
            // If the input is accepted, the formula must still be x1 (and not ⊤)
            let ProblemDetails::Root(root) = p.details else {
                panic!()
            };
            assert_eq!(root, Literal::from_input(false, 0), "{p:?}");
        }
    }

    // nested empty tree
    let res = oxidd_parser::dimacs::parse::<()>(&opts)(b"c co [0, []]\np cnf 1 1\n1 0\n");
    assert!(res.is_err());
}

#[test]
fn empty_var_order_tree() {
    let opts = ParseOptionsBuilder::default()
        .var_order(true)
        .build()
        .unwrap();
    let res = std::panic::catch_unwind(|| {
        oxidd_parser::dimacs::parse::<()>(&opts)(b"c vo []\np cnf 1 1\n1 0\n").map(|(_, p)| p)
    });
    let res = res.expect("the DIMACS parser must not panic");
    if let Ok(p) = res {
        // a present order tree implies a linear order (its flattening)
        let inputs = p.circuit.inputs();
        assert!(
            inputs.order_tree().is_none() || inputs.order().is_some(),
            "{p:?}"
        );
    }
    let res = std::panic::catch_unwind(|| {
        oxidd_parser::nnf::parse::<()>(&opts)(b"c vo []\nnnf 1 0 1\nL 1\n").map(|(_, p)| p)
    });
    let res = res.expect("the NNF parser must not panic");
    if let Ok(p) = res {
        let inputs = p.circuit.inputs();
        assert!(
            inputs.order_tree().is_none() || inputs.order().is_some(),
            "{p:?}"
        );
    }
}

#[test]
fn non_empty_trees_still_work() {
    let opts = ParseOptionsBuilder::default()
        .var_order(true)
        .clause_tree(true)
        .build()
        .unwrap();
    let input = b"c vo [[2, 1], [3]]\nc co [[0], [1, 2]]\np cnf 3 3\n1 2 0\n-1 3 0\n2 -3 0\n";
    let (_, p) = oxidd_parser::dimacs::parse::<()>(&opts)(input).unwrap();
    assert_eq!(p.circuit.inputs().order(), Some([1, 0, 2].as_slice()));
    assert_eq!(p.circuit.num_gates(), 5);
}
