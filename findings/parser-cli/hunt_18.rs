//! Defect 18: `AIGERDetails::latch_init_value()` returns wrong values for all
//! but the first latch (broken bit positions in `TVBitVec`)
//!
//! Place at crates/oxidd-parser/tests/hunt_18.rs and run
//! `cargo test --offline -p oxidd-parser --test hunt_18`

use oxidd_parser::{ParseOptionsBuilder, ProblemDetails};

fn init_values(input: &[u8], n: usize) -> Vec<Option<bool>> {
    let opts = ParseOptionsBuilder::default().build().unwrap();
    let (_, problem) = oxidd_parser::aiger::parse::<()>(&opts)(input).expect("input must parse");
    let ProblemDetails::AIGER(d) = &problem.details else {
        panic!()
    };
    assert_eq!(d.latches().len(), n);
    (0..n).map(|i| d.latch_init_value(i)).collect()
}

#[test]
fn three_latches() {
    // latch literals 2, 4, 6; initial values: uninitialized, 1, 0
    let aag = b"aag 3 0 3 0 0\n2 2 2\n4 4 1\n6 6 0\n";
    assert_eq!(init_values(aag, 3), [None, Some(true), Some(false)]);
    // the second latch is the first one for which the binary parser computed
    // the wrong literal (defect 7), so we use 0/1 only in the binary file
    let aig = b"aig 3 0 3 0 0\n2 0\n4 1\n6\n";
    assert_eq!(init_values(aig, 3), [Some(false), Some(true), Some(false)]);
    let aig = b"aig 3 0 3 0 0\n2 1\n4 0\n6 1\n";
    assert_eq!(init_values(aig, 3), [Some(true), Some(false), Some(true)]);
}

#[test]
fn many_latches() {
    // more than 16 latches (a block of the bit vector holds 16 values)
    let n = 40;
    let expected: Vec<Option<bool>> = (0..n)
        .map(|i| match (i * 7 + i / 3) % 3 {
            0 => Some(false),
            1 => Some(true),
            _ => None,
        })
        .collect();
    let mut aag = format!("aag {n} 0 {n} 0 0\n");
    for (i, init) in expected.iter().enumerate() {
        let lit = 2 * (i + 1);
        let init = match init {
            Some(false) => "0".to_string(),
            Some(true) => "1".to_string(),
            None => lit.to_string(),
        };
        aag += &format!("{lit} {} {init}\n", i % 2);
    }
    assert_eq!(init_values(aag.as_bytes(), n), expected);
}
