//! Defect 8: The DIMACS parser rejects `=` in the `sate` format
//!
//! Place at crates/oxidd-parser/tests/hunt_8.rs and run
//! `cargo test --offline -p oxidd-parser --test hunt_8`

use oxidd_parser::{GateKind, ParseOptionsBuilder, ProblemDetails};

#[test]
fn sate_allows_eq() {
    let opts = ParseOptionsBuilder::default().build().unwrap();
    let input = b"c SAT format with equivalence\np sate 2\n(=(1 2))\n";
    let res = oxidd_parser::dimacs::parse::<()>(&opts)(input);
    let (_, problem) = res.expect("'=' must be allowed in format 'sate'");
    let ProblemDetails::Root(root) = problem.details else {
        panic!()
    };
    // 1 ↔ 2 is represented as ¬(1 ⊕ 2)
    assert!(root.is_negative());
    let gate = problem.circuit.gate(root).unwrap();
    assert_eq!(gate.kind, GateKind::Xor);
    assert_eq!(gate.inputs.len(), 2);
}

#[test]
fn format_restrictions() {
    let opts = ParseOptionsBuilder::default().build().unwrap();
    let parse = |input: &[u8]| oxidd_parser::dimacs::parse::<()>(&opts)(input).is_ok();
    // = is allowed in sate and satex only
    assert!(!parse(b"p sat 2\n=(1 2)\n"));
    assert!(!parse(b"p satx 2\n=(1 2)\n"));
    assert!(parse(b"p sate 2\n=(1 2)\n"));
    assert!(parse(b"p satex 2\n=(1 2)\n"));
    // xor is allowed in satx and satex only
    assert!(!parse(b"p sat 2\nxor(1 2)\n"));
    assert!(parse(b"p satx 2\nxor(1 2)\n"));
    assert!(!parse(b"p sate 2\nxor(1 2)\n"));
    assert!(parse(b"p satex 2\nxor(1 2)\n"));
}
