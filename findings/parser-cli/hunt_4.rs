//! Defect 4: `Circuit::simplify` keeps a constant as XOR gate input if this
//! input is a gate that was simplified to a constant
//!
//! Place at crates/oxidd-parser/tests/hunt_4.rs and run
//! `cargo test --offline -p oxidd-parser --test hunt_4`

use oxidd_parser::{Circuit, GateKind, Literal, VarSet};

fn v(i: usize) -> Literal {
    Literal::from_input(false, i)
}
fn g(i: usize) -> Literal {
    Literal::from_gate(false, i)
}

fn check_no_constant_inputs(c: &Circuit) {
    for gate in c.iter_gates() {
        for l in gate.inputs {
            assert!(
                l.positive() != Literal::FALSE,
                "gate {gate:?} has a constant input"
            );
        }
        assert!(gate.inputs.len() >= 2, "gate {gate:?} has less than two inputs");
    }
}

#[test]
fn xor_with_gate_simplified_to_false() {
    // g0 = x0 ∧ ¬x0 ≡ ⊥, g1 = g0 ⊕ x1 ⊕ x2
    let mut c = Circuit::new(VarSet::new(3));
    c.push_gate(GateKind::And);
    c.push_gate_inputs([v(0), !v(0)]);
    c.push_gate(GateKind::Xor);
    c.push_gate_inputs([g(0), v(1), v(2)]);
    let (s, map) = c.simplify([g(1)]).unwrap();
    check_no_constant_inputs(&s);
    assert_eq!(s.num_gates(), 1);
    assert_eq!(s.gate_for_no(0).unwrap().inputs, [v(1), v(2)]);
    assert_eq!(map[1], g(0));
}

#[test]
fn xor_with_gate_simplified_to_true() {
    // g0 = x0 ∨ ¬x0 ≡ ⊤, g1 = x1 ⊕ g0 ≡ ¬x1
    let mut c = Circuit::new(VarSet::new(2));
    c.push_gate(GateKind::Or);
    c.push_gate_inputs([v(0), !v(0)]);
    c.push_gate(GateKind::Xor);
    c.push_gate_inputs([v(1), g(0)]);
    let (s, map) = c.simplify([g(1)]).unwrap();
    check_no_constant_inputs(&s);
    assert_eq!(s.num_gates(), 0);
    assert_eq!(map[1], !v(1));
}

#[test]
fn xor_with_negated_constant_gates() {
    // g0 = and() ≡ ⊤, g1 = or() ≡ ⊥, g2 = ¬g0 ⊕ x0 ⊕ ¬g1 ⊕ x1 ≡ ¬(x0 ⊕ x1)
    let mut c = Circuit::new(VarSet::new(2));
    c.push_gate(GateKind::And);
    c.push_gate(GateKind::Or);
    c.push_gate(GateKind::Xor);
    c.push_gate_inputs([!g(0), v(0), !g(1), v(1)]);
    let (s, map) = c.simplify([g(2)]).unwrap();
    check_no_constant_inputs(&s);
    assert_eq!(s.num_gates(), 1);
    assert_eq!(s.gate_for_no(0).unwrap().inputs, [v(0), v(1)]);
    assert_eq!(map[2], !g(0));
}
