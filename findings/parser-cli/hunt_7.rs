//! Defect 7: The binary AIGER parser computes the literal of the i-th latch as
//! `i + 2 * first_latch` instead of `2 * (first_latch + i)` when checking the
//! latch's initial value
//!
//! Place at crates/oxidd-parser/tests/hunt_7.rs and run
//! `cargo test --offline -p oxidd-parser --test hunt_7`

use oxidd_parser::{ParseOptionsBuilder, ProblemDetails};

#[test]
fn uninitialized_latches() {
    let opts = ParseOptionsBuilder::default().build().unwrap();
    // Two latches (literals 2 and 4), the next state of each latch is the latch
    // itself, and the initial value is "uninitialized" (i.e., the latch
    // literal itself).
    let aag = b"aag 2 0 2 0 0\n2 2 2\n4 4 4\n";
    let aig = b"aig 2 0 2 0 0\n2 2\n4 4\n";
    let (_, from_aag) = oxidd_parser::aiger::parse::<()>(&opts)(aag).expect("aag must parse");
    let (_, from_aig) = oxidd_parser::aiger::parse::<()>(&opts)(aig).expect("aig must parse");
    assert_eq!(from_aag, from_aig);
    let ProblemDetails::AIGER(d) = &from_aig.details else {
        panic!()
    };
    assert_eq!(d.latches().len(), 2);
    assert_eq!(d.latch_init_value(0), None);
    // (the values of the other latches are subject to defect 18)
}

#[test]
fn more_latches_with_inputs() {
    let opts = ParseOptionsBuilder::default().build().unwrap();
    // one input (2), three latches (4, 6, 8), one and gate (10)
    let aag = b"aag 5 1 3 1 1\n2\n4 10 4\n6 3 1\n8 8 8\n10\n10 8 2\n";
    let aig = b"aig 5 1 3 1 1\n10 4\n3 1\n8 8\n10\n\x02\x06";
    let (_, from_aag) = oxidd_parser::aiger::parse::<()>(&opts)(aag).expect("aag must parse");
    let (_, from_aig) = oxidd_parser::aiger::parse::<()>(&opts)(aig).expect("aig must parse");
    assert_eq!(from_aag, from_aig);
    let ProblemDetails::AIGER(d) = &from_aig.details else {
        panic!()
    };
    assert_eq!(d.latches().len(), 3);
    assert_eq!(d.latch_init_value(0), None);
}

#[test]
fn invalid_initial_value() {
    let opts = ParseOptionsBuilder::default().build().unwrap();
    // The initial value 3 is neither 0, 1, nor the latch literal (4). The ASCII
    // parser rejects this, so the binary parser must do so, too.
    let aag = b"aag 2 0 2 0 0\n2 2\n4 2 3\n";
    let aig = b"aig 2 0 2 0 0\n2\n2 3\n";
    assert!(oxidd_parser::aiger::parse::<()>(&opts)(aag).is_err());
    assert!(oxidd_parser::aiger::parse::<()>(&opts)(aig).is_err());
}
