//! Defect 17: oxidd-cli does not map named variables of the second (third,
//! ...) input file to the variables of the manager
//!
//! Place at crates/oxidd-cli/tests/hunt_17.rs and run
//! `cargo test --offline -p oxidd-cli --test hunt_17`

use std::process::Command;

#[test]
fn named_variables_in_multiple_inputs() {
    let dir = std::env::temp_dir().join(format!("hunt_17_{}", std::process::id()));
    std::fs::create_dir_all(&dir).unwrap();
    // a.cnf: the formula x
    std::fs::write(dir.join("a.cnf"), "c 1 x\nc 2 y\np cnf 2 1\n1 0\n").unwrap();
    // b.cnf: the formula y (note the different numbering)
    std::fs::write(dir.join("b.cnf"), "c 1 y\nc 2 x\np cnf 2 1\n1 0\n").unwrap();
    // c.cnf: the formula x ∨ z
    std::fs::write(dir.join("c.cnf"), "c 1 y\nc 2 z\nc 3 x\np cnf 3 1\n3 2 0\n").unwrap();
    let out_path = dir.join("out.dddmp");

    let out = Command::new(env!("CARGO_BIN_EXE_oxidd-cli"))
        .args(["-t", "bdd", "--inner-node-capacity", "4096"])
        .args(["--apply-cache-capacity", "1024", "--threads", "1"])
        .args(["--read-var-order", "--dddmp-ascii", "--dddmp-export"])
        .arg(&out_path)
        .args([dir.join("a.cnf"), dir.join("b.cnf"), dir.join("c.cnf")])
        .output()
        .unwrap();
    let stdout = String::from_utf8_lossy(&out.stdout);
    let stderr = String::from_utf8_lossy(&out.stderr);
    assert!(out.status.success(), "oxidd-cli failed:\n{stdout}\n{stderr}");
    // x and y are different functions
    assert!(
        !stdout.contains("a.cnf, b.cnf") && !stdout.contains("b.cnf, a.cnf"),
        "a.cnf (x) and b.cnf (y) are reported to be equivalent:\n{stdout}"
    );

    // Inspect the exported BDDs. Variable numbers: x = 0, y = 1, z = 2
    let dddmp = std::fs::read_to_string(&out_path).unwrap();
    std::fs::remove_dir_all(&dir).ok();
    let field = |key: &str| -> Vec<String> {
        let line = dddmp
            .lines()
            .find(|l| l.split(' ').next() == Some(key))
            .unwrap_or_else(|| panic!("no {key} in\n{dddmp}"));
        line.split(' ').skip(1).map(str::to_string).collect()
    };
    assert_eq!(field(".suppvarnames"), ["x", "y", "z"], "{dddmp}");
    assert_eq!(field(".rootnames"), ["a.cnf", "b.cnf", "c.cnf"], "{dddmp}");
    let permids: Vec<usize> = field(".permids").iter().map(|s| s.parse().unwrap()).collect();
    let roots: Vec<usize> = field(".rootids").iter().map(|s| s.parse().unwrap()).collect();
    // nodes: id -> Err(terminal) | Ok((var, then, else))
    let nodes: Vec<Result<(usize, usize, usize), bool>> = dddmp
        .lines()
        .skip_while(|l| *l != ".nodes")
        .skip(1)
        .take_while(|l| *l != ".end")
        .map(|l| {
            let f: Vec<&str> = l.split(' ').collect();
            match f[1] {
                "T" => Err(true),
                "F" => Err(false),
                pos => {
                    // the internal index is the position in the order of support variables
                    let pos: usize = pos.parse().unwrap();
                    let var = permids.iter().position(|&l| l == pos).unwrap();
                    Ok((var, f[2].parse().unwrap(), f[3].parse().unwrap()))
                }
            }
        })
        .collect();
    let eval = |mut id: usize, assignment: [bool; 3]| loop {
        match nodes[id - 1] {
            Err(b) => return b,
            Ok((var, t, e)) => id = if assignment[var] { t } else { e },
        }
    };
    for a in 0..8 {
        let [x, y, z] = [a & 1 != 0, a & 2 != 0, a & 4 != 0];
        assert_eq!(eval(roots[0], [x, y, z]), x, "a.cnf must be x\n{dddmp}");
        assert_eq!(eval(roots[1], [x, y, z]), y, "b.cnf must be y\n{dddmp}");
        assert_eq!(eval(roots[2], [x, y, z]), x || z, "c.cnf must be x ∨ z\n{dddmp}");
    }
}
