//! Defect 11: `oxidd_parser::parse()` computes the offset of spans that are
//! not part of the input when rendering diagnostics
//!
//! Place at crates/oxidd-parser/tests/hunt_11.rs and run
//! `cargo test --offline -p oxidd-parser --test hunt_11`

use codespan_reporting::term::Config;
use codespan_reporting::term::termcolor::NoColor;
use oxidd_parser::{FileType, ParseOptionsBuilder};

fn diagnostic(input: &'static [u8], ft: FileType) -> String {
    let r = std::panic::catch_unwind(|| {
        let opts = ParseOptionsBuilder::default().build().unwrap();
        let mut out = NoColor::new(Vec::new());
        let p = oxidd_parser::parse(input, ft, &opts, "f", &mut out, &Config::default());
        assert!(p.is_none());
        String::from_utf8(out.into_inner()).unwrap()
    });
    r.unwrap_or_else(|_| panic!("parse() panicked for {:?}", String::from_utf8_lossy(input)))
}

#[test]
fn aiger_symbol_for_missing_header_field() {
    // The header does not have the optional B, C, J, and F fields, but there are
    // symbol table entries for a bad state literal, an invariant constraint,
    // a justice property, and a fairness constraint.
    for symbol in ["b0", "c0", "j0", "f0"] {
        let input = format!("aag 1 1 0 1 0\n2\n2\ni0 x\n{symbol} foobar\n");
        let msg = diagnostic(input.into_bytes().leak(), FileType::AIGER);
        assert!(msg.contains("not defined"), "{msg}");
        // the diagnostic must point to the symbol
        assert!(msg.contains("f:5:2"), "{msg}");
    }
}

#[test]
fn regular_diagnostics_still_have_notes() {
    let msg = diagnostic(b"aag 1 1 0 1 0 1\n2\n2\n0\nb1 foobar\n", FileType::AIGER);
    assert!(msg.contains("not defined"), "{msg}");
    assert!(msg.contains("given here"), "{msg}");
}
