//! Defect 3: `Circuit::simplify` creates a gate without inputs if all inputs
//! of an XOR gate cancel out
//!
//! Place at crates/oxidd-parser/tests/hunt_3.rs and run
//! `cargo test --offline -p oxidd-parser --test hunt_3`

use oxidd_parser::{Circuit, GateKind, Literal, VarSet};

fn v(i: usize) -> Literal {
    Literal::from_input(false, i)
}

fn simplify_xor(inputs: &[Literal]) -> (Circuit, Literal) {
    let mut c = Circuit::new(VarSet::new(3));
    c.push_gate(GateKind::Xor);
    c.push_gate_inputs(inputs.iter().copied());
    let (s, map) = c.simplify([Literal::from_gate(false, 0)]).unwrap();
    (s, map[0])
}

#[test]
fn xor_inputs_cancel_out() {
    let cases: &[(&[Literal], Literal)] = &[
        (&[v(0), v(0)], Literal::FALSE),
        (&[v(0), !v(0)], Literal::TRUE),
        (&[!v(0), v(0)], Literal::TRUE),
        (&[!v(0), !v(0)], Literal::FALSE),
        (&[v(0), v(1), v(0), v(1)], Literal::FALSE),
        (&[v(0), v(1), !v(1), v(0)], Literal::TRUE),
        (&[v(2), v(1), v(0), v(0), v(1), !v(2)], Literal::TRUE),
    ];
    for (inputs, expected) in cases {
        let (s, root) = simplify_xor(inputs);
        // condition 4 of the normal form: all gates have at least two inputs
        for gate in s.iter_gates() {
            assert!(
                gate.inputs.len() >= 2,
                "xor{inputs:?} was simplified to a circuit containing the gate {gate:?}"
            );
        }
        assert_eq!(root, *expected, "xor{inputs:?}");
    }
}

#[test]
fn partial_cancellation_still_works() {
    let (s, root) = simplify_xor(&[v(0), v(1), v(0)]);
    assert_eq!(s.num_gates(), 0);
    assert_eq!(root, v(1));
    let (s, root) = simplify_xor(&[v(0), v(1), !v(0), v(2)]);
    assert_eq!(s.num_gates(), 1);
    assert_eq!(s.gate_for_no(0).unwrap().inputs, [v(1), v(2)]);
    assert_eq!(root, Literal::from_gate(true, 0));
}
