//! Defect 6: `Circuit::simplify` and `Circuit::find_cycle` panic on
//! references to gates that are not part of the circuit
//!
//! Place at crates/oxidd-parser/tests/hunt_6.rs and run
//! `cargo test --offline -p oxidd-parser --test hunt_6`

use oxidd_parser::{Circuit, GateKind, Literal, VarSet};

fn v(i: usize) -> Literal {
    Literal::from_input(false, i)
}
fn g(i: usize) -> Literal {
    Literal::from_gate(false, i)
}

#[test]
fn simplify_unknown_gate_as_root() {
    let mut c = Circuit::new(VarSet::new(2));
    c.push_gate(GateKind::And);
    c.push_gate_inputs([v(0), v(1)]);
    let r = std::panic::catch_unwind(|| c.simplify([g(5)]).map(|_| ()));
    assert_eq!(r.expect("simplify() must not panic"), Err(g(5)));
    // (mixed with a valid root)
    let r = std::panic::catch_unwind(|| c.simplify([g(0), !g(1)]).map(|_| ()));
    assert_eq!(r.expect("simplify() must not panic").map_err(|l| l.positive()), Err(g(1)));
}

#[test]
fn simplify_unknown_gate_as_gate_input() {
    for kind in [GateKind::And, GateKind::Or, GateKind::Xor] {
        let mut c = Circuit::new(VarSet::new(2));
        c.push_gate(kind);
        c.push_gate_inputs([v(0), !g(7)]);
        let r = std::panic::catch_unwind(|| c.simplify([g(0)]).map(|_| ()));
        let r = r.expect("simplify() must not panic");
        assert_eq!(r.map_err(|l| l.positive()), Err(g(7)), "{kind:?}");
    }
}

#[test]
fn find_cycle_with_unknown_gate() {
    let mut c = Circuit::new(VarSet::new(2));
    c.push_gate(GateKind::And);
    c.push_gate_inputs([v(0), g(7)]);
    c.push_gate(GateKind::Or);
    c.push_gate_inputs([g(0), g(1)]);
    let r = std::panic::catch_unwind(|| c.find_cycle());
    // gate 1 depends on itself, the unknown gate 7 cannot be part of a cycle
    assert_eq!(r.expect("find_cycle() must not panic"), Some(g(1)));

    let mut c = Circuit::new(VarSet::new(2));
    c.push_gate(GateKind::And);
    c.push_gate_inputs([v(0), g(7)]);
    let r = std::panic::catch_unwind(|| c.find_cycle());
    assert_eq!(r.expect("find_cycle() must not panic"), None);
}
