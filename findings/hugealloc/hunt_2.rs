//! `HugeAlloc` must hand every block back to the global allocator with the
//! layout it was allocated with.
//!
//! Run with
//!
//!     cargo test --offline -p hugealloc --test hunt_2
//!
//! The test installs a global allocator that forwards to `System` and records
//! the layout of every large block (>= 1 MiB). Whenever such a block is passed
//! to `dealloc()` or `realloc()`, the given layout is compared to the recorded
//! one. The `GlobalAlloc` contract requires them to be equal ("`layout` must be
//! the same layout that was used to allocate that block of memory").

use std::alloc::{GlobalAlloc, Layout, System};
use std::ptr::NonNull;
use std::sync::atomic::{AtomicUsize, Ordering::SeqCst};

use allocator_api2::alloc::Allocator;
use hugealloc::HugeAlloc;

const TRACK_MIN: usize = 1024 * 1024;
const SLOTS: usize = 64;

struct Record {
    ptr: AtomicUsize,
    size: AtomicUsize,
    align: AtomicUsize,
}
#[allow(clippy::declare_interior_mutable_const)]
const EMPTY: Record = Record {
    ptr: AtomicUsize::new(0),
    size: AtomicUsize::new(0),
    align: AtomicUsize::new(0),
};
static RECORDS: [Record; SLOTS] = [EMPTY; SLOTS];

/// Number of contract violations and the details of the first one
static VIOLATIONS: AtomicUsize = AtomicUsize::new(0);
static V_GIVEN_SIZE: AtomicUsize = AtomicUsize::new(0);
static V_GIVEN_ALIGN: AtomicUsize = AtomicUsize::new(0);
static V_ALLOC_SIZE: AtomicUsize = AtomicUsize::new(0);
static V_ALLOC_ALIGN: AtomicUsize = AtomicUsize::new(0);

fn record(ptr: *mut u8, layout: Layout) {
    if ptr.is_null() || layout.size() < TRACK_MIN {
        return;
    }
    for r in &RECORDS {
        if r.ptr.compare_exchange(0, ptr as usize, SeqCst, SeqCst).is_ok() {
            r.size.store(layout.size(), SeqCst);
            r.align.store(layout.align(), SeqCst);
            return;
        }
    }
}

/// Check `layout` against the recorded layout for `ptr` and forget the block
fn check_and_forget(ptr: *mut u8, layout: Layout) {
    for r in &RECORDS {
        if r.ptr.load(SeqCst) == ptr as usize {
            let (size, align) = (r.size.load(SeqCst), r.align.load(SeqCst));
            if (size, align) != (layout.size(), layout.align())
                && VIOLATIONS.fetch_add(1, SeqCst) == 0
            {
                V_GIVEN_SIZE.store(layout.size(), SeqCst);
                V_GIVEN_ALIGN.store(layout.align(), SeqCst);
                V_ALLOC_SIZE.store(size, SeqCst);
                V_ALLOC_ALIGN.store(align, SeqCst);
            }
            r.ptr.store(0, SeqCst);
            return;
        }
    }
}

struct Checked;

unsafe impl GlobalAlloc for Checked {
    unsafe fn alloc(&self, layout: Layout) -> *mut u8 {
        let ptr = unsafe { System.alloc(layout) };
        record(ptr, layout);
        ptr
    }
    unsafe fn alloc_zeroed(&self, layout: Layout) -> *mut u8 {
        let ptr = unsafe { System.alloc_zeroed(layout) };
        record(ptr, layout);
        ptr
    }
    unsafe fn dealloc(&self, ptr: *mut u8, layout: Layout) {
        check_and_forget(ptr, layout);
        unsafe { System.dealloc(ptr, layout) }
    }
    unsafe fn realloc(&self, ptr: *mut u8, layout: Layout, new_size: usize) -> *mut u8 {
        check_and_forget(ptr, layout);
        let new = unsafe { System.realloc(ptr, layout, new_size) };
        record(new, Layout::from_size_align(new_size, layout.align()).unwrap());
        new
    }
}

#[global_allocator]
static GLOBAL: Checked = Checked;

fn assert_no_violation(what: &str) {
    assert_eq!(
        VIOLATIONS.load(SeqCst),
        0,
        "{what}: a block allocated with size {} / align {} was passed to the global allocator \
         with size {} / align {}",
        V_ALLOC_SIZE.load(SeqCst),
        V_ALLOC_ALIGN.load(SeqCst),
        V_GIVEN_SIZE.load(SeqCst),
        V_GIVEN_ALIGN.load(SeqCst),
    );
}

// Just a single test such that there is no interference between tests
#[test]
fn layouts_match() {
    const MIB: usize = 1024 * 1024;
    let a = HugeAlloc;

    // plain allocate / deallocate of a large block
    let l4 = Layout::from_size_align(4 * MIB, 8).unwrap();
    let p = a.allocate(l4).unwrap();
    unsafe { a.deallocate(p.cast(), l4) };
    assert_no_violation("allocate/deallocate");

    // grow small -> large, large -> larger
    let l1 = Layout::from_size_align(MIB, 8).unwrap();
    let l8 = Layout::from_size_align(8 * MIB, 8).unwrap();
    let p = a.allocate(l1).unwrap();
    let p = unsafe { a.grow(p.cast(), l1, l4) }.unwrap();
    let p = unsafe { a.grow_zeroed(p.cast(), l4, l8) }.unwrap();
    unsafe { a.deallocate(p.cast(), l8) };
    assert_no_violation("grow");

    // shrink large -> large
    let p = a.allocate(l8).unwrap();
    let p = unsafe { a.shrink(p.cast(), l8, l4) }.unwrap();
    unsafe { a.deallocate(p.cast(), l4) };
    assert_no_violation("shrink large -> large");

    // shrink large -> small (e.g., `Vec::shrink_to_fit()`)
    let p = a.allocate(l4).unwrap();
    let data: NonNull<u8> = p.cast();
    for i in 0..MIB {
        unsafe { data.as_ptr().add(i).write(i as u8) };
    }
    let p = unsafe { a.shrink(data, l4, l1) }.unwrap();
    let data: NonNull<u8> = p.cast();
    for i in 0..MIB {
        assert_eq!(unsafe { data.as_ptr().add(i).read() }, i as u8);
    }
    unsafe { a.deallocate(data, l1) };
    assert_no_violation("shrink large -> small");
}
