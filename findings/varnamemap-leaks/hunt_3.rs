//! `VarNameMap` must free the names it owns.
//!
//! Place this file at `crates/oxidd-core/tests/hunt_3.rs` and run
//! `cargo test --offline -p oxidd-core --test hunt_3`

use std::alloc::{GlobalAlloc, Layout, System};
use std::cell::Cell;

use oxidd_core::util::VarNameMap;

/// Allocator counting the live allocations made by the current thread while
/// `TRACK` is set
struct Counting;

thread_local! {
    static TRACK: Cell<bool> = const { Cell::new(false) };
    static LIVE: Cell<isize> = const { Cell::new(0) };
}

unsafe impl GlobalAlloc for Counting {
    unsafe fn alloc(&self, l: Layout) -> *mut u8 {
        let _ = TRACK.try_with(|t| {
            if t.get() {
                let _ = LIVE.try_with(|c| c.set(c.get() + 1));
            }
        });
        unsafe { System.alloc(l) }
    }
    unsafe fn dealloc(&self, p: *mut u8, l: Layout) {
        let _ = TRACK.try_with(|t| {
            if t.get() {
                let _ = LIVE.try_with(|c| c.set(c.get() - 1));
            }
        });
        unsafe { System.dealloc(p, l) }
    }
}

#[global_allocator]
static ALLOCATOR: Counting = Counting;

/// Run `f` and return the number of allocations made by `f` that are still
/// live when `f` returns
fn leaked_allocations(f: impl FnOnce()) -> isize {
    let before = LIVE.with(|c| c.get());
    TRACK.with(|t| t.set(true));
    f();
    TRACK.with(|t| t.set(false));
    LIVE.with(|c| c.get()) - before
}

const NAMES: [&str; 4] = ["first", "second", "third", "fourth"];

#[test]
fn baseline() {
    assert_eq!(
        leaked_allocations(|| {
            let mut map = VarNameMap::new();
            map.add_named(NAMES).unwrap();
            map.set_var_name(1, "2nd").unwrap();
            let clone = map.clone();
            assert_eq!(clone.into_names_iter().count(), 4);
        }),
        0
    );
}

#[test]
fn set_var_name_empty() {
    assert_eq!(
        leaked_allocations(|| {
            let mut map = VarNameMap::new();
            map.add_named(NAMES).unwrap();
            map.set_var_name(1, "").unwrap();
            assert_eq!(map.var_name(1), "");
            assert_eq!(map.name_to_var("second"), None);
            assert_eq!(map.named_count(), 3);
        }),
        0,
        "unnaming a variable leaks its previous name"
    );
}

#[test]
fn into_names_iter_nth() {
    assert_eq!(
        leaked_allocations(|| {
            let mut map = VarNameMap::new();
            map.add_named(NAMES).unwrap();
            let mut it = map.into_names_iter();
            assert_eq!(it.nth(2).as_deref(), Some("third"));
            assert_eq!(it.len(), 1);
            assert_eq!(it.next().as_deref(), Some("fourth"));
            assert_eq!(it.next(), None);
        }),
        0,
        "IntoNamesIter::nth() leaks the skipped names"
    );
}

#[test]
fn into_names_iter_nth_back() {
    assert_eq!(
        leaked_allocations(|| {
            let mut map = VarNameMap::new();
            map.add_named(NAMES).unwrap();
            let mut it = map.into_names_iter();
            assert_eq!(it.nth_back(2).as_deref(), Some("second"));
            assert_eq!(it.len(), 1);
            assert_eq!(it.next_back().as_deref(), Some("first"));
            assert_eq!(it.next_back(), None);
        }),
        0,
        "IntoNamesIter::nth_back() leaks the skipped names"
    );
}

/// Not a leak, but a violated contract: `IntoNamesIter` implements
/// `ExactSizeIterator`, so `size_hint()` must be exact.
#[test]
fn into_names_iter_size_hint() {
    let mut map = VarNameMap::new();
    map.add_named(NAMES).unwrap();
    let mut it = map.into_names_iter();
    assert_eq!(it.len(), 4);
    assert_eq!(it.size_hint(), (4, Some(4)));
    it.next();
    it.next_back();
    assert_eq!(it.size_hint(), (2, Some(2)));
}
