//! Defect 2: `eval()` of BDDs, BCDDs, MTBDDs and TDDs decides unassigned
//! variables as *true*, although the documentation of
//! `BooleanFunction::eval()` / `PseudoBooleanFunction::eval()` /
//! `TVLFunction::eval()` promises `false` (resp. `unknown` for TDDs). ZBDDs
//! implement the documented behaviour.
//!
//! Place this file at `crates/oxidd/tests/hunt_2.rs` and run
//! `cargo test --offline -p oxidd --features tdd --test hunt_2`
//! (without `--features tdd`, the TDD part is skipped)

use oxidd::bcdd::BCDDFunction;
use oxidd::bdd::BDDFunction;
use oxidd::zbdd::ZBDDFunction;
use oxidd::{BooleanFunction, Manager, ManagerRef};

/// Reference: node-by-node interpretation of x0 ∧ ¬x1 ∨ x2 under a partial
/// assignment, where missing variables default to `false` as documented
fn reference(args: &[(u32, bool)]) -> bool {
    let mut vals = [false; 3];
    for &(v, b) in args {
        vals[v as usize] = b;
    }
    vals[0] && !vals[1] || vals[2]
}

fn partial_assignments() -> Vec<Vec<(u32, bool)>> {
    // every variable is either unassigned, false, or true
    let mut res = Vec::new();
    for code in 0..27u32 {
        let mut c = code;
        let mut args = Vec::new();
        for v in 0..3 {
            match c % 3 {
                0 => {}
                1 => args.push((v, false)),
                _ => args.push((v, true)),
            }
            c /= 3;
        }
        res.push(args);
    }
    res
}

macro_rules! bool_test {
    ($name:ident, $dd:ident, $F:ident) => {
        #[test]
        fn $name() {
            let mref = oxidd::$dd::new_manager(1024, 128, 1);
            mref.with_manager_exclusive(|m| {
                m.add_vars(3);
            });
            mref.with_manager_shared(|m| {
                let x0 = $F::var(m, 0).unwrap();
                let x1 = $F::var(m, 1).unwrap();
                let x2 = $F::var(m, 2).unwrap();
                // minimal scenario
                assert!(!x0.eval([]), "x0.eval([]) must be false");
                assert!(x0.not().unwrap().eval([]), "(¬x0).eval([]) must be true");

                let f = x0.and(&x1.not().unwrap()).unwrap().or(&x2).unwrap();
                for args in partial_assignments() {
                    assert_eq!(f.eval(args.iter().copied()), reference(&args), "args: {args:?}");
                }
            });
        }
    };
}

bool_test!(bdd_eval_unassigned_is_false, bdd, BDDFunction);
bool_test!(bcdd_eval_unassigned_is_false, bcdd, BCDDFunction);
// ZBDDs already behave as documented (this test passes with and without the fix)
bool_test!(zbdd_eval_unassigned_is_false, zbdd, ZBDDFunction);

#[cfg(not(feature = "manager-pointer"))]
#[test]
fn mtbdd_eval_unassigned_is_false() {
    use oxidd::PseudoBooleanFunction;
    use oxidd::mtbdd::MTBDDFunction;
    use oxidd::mtbdd::terminal::I64;
    let mref = oxidd::mtbdd::new_manager::<I64>(1024, 128, 128, 1);
    mref.with_manager_exclusive(|m| {
        m.add_vars(3);
    });
    mref.with_manager_shared(|m| {
        let x0 = MTBDDFunction::<I64>::var(m, 0).unwrap();
        let x1 = MTBDDFunction::<I64>::var(m, 1).unwrap();
        let x2 = MTBDDFunction::<I64>::var(m, 2).unwrap();
        let two = MTBDDFunction::constant(m, I64::Num(2)).unwrap();
        let four = MTBDDFunction::constant(m, I64::Num(4)).unwrap();
        assert_eq!(x0.eval([]), I64::Num(0), "x0.eval([]) must be 0");
        // f = x0 + 2 x1 + 4 x2
        let f = x0
            .add(&x1.mul(&two).unwrap())
            .unwrap()
            .add(&x2.mul(&four).unwrap())
            .unwrap();
        for args in partial_assignments() {
            let expected: i64 = args.iter().map(|&(v, b)| (b as i64) << v).sum();
            assert_eq!(f.eval(args.iter().copied()), I64::Num(expected), "args: {args:?}");
        }
    });
}

#[cfg(feature = "tdd")]
#[test]
fn tdd_eval_unassigned_is_unknown() {
    use oxidd::TVLFunction;
    use oxidd::tdd::TDDFunction;
    let mref = oxidd::tdd::new_manager(1024, 128, 1);
    mref.with_manager_exclusive(|m| {
        m.add_vars(20); // more than one 16-element block in `eval_edge()`
    });
    mref.with_manager_shared(|m| {
        for v in [0, 1, 15, 16, 19] {
            let x = TDDFunction::var(m, v).unwrap();
            assert_eq!(x.eval([]), None, "x{v}.eval([]) must be unknown");
            assert_eq!(x.eval([((v + 1) % 20, Some(true))]), None);
            assert_eq!(x.eval([(v, Some(true))]), Some(true));
            assert_eq!(x.eval([(v, Some(false))]), Some(false));
            assert_eq!(x.eval([(v, None)]), None);
            assert_eq!(x.eval([(v, Some(true)), (v, None)]), None, "last value counts");
        }
        // x0 ∨ x17 with x17 unassigned: Kleene ⊤ ∨ U = ⊤, ⊥ ∨ U = U
        let f = TDDFunction::var(m, 0).unwrap().or(&TDDFunction::var(m, 17).unwrap()).unwrap();
        assert_eq!(f.eval([(0, Some(true))]), Some(true));
        assert_eq!(f.eval([(0, Some(false))]), None);
    });
}
