//! Defect 9: `BDDFunction::eval()` / `BCDDFunction::eval()` use `true` for
//! decision nodes whose variable is not mentioned in `args`, although the
//! documentation of `BooleanFunction::eval()` specifies `false` (and the ZBDD
//! implementation uses `false`).
//!
//! Place at crates/oxidd/tests/hunt_9.rs and run
//! `cargo test --offline -p oxidd --test hunt_9`

use oxidd::bcdd::BCDDFunction;
use oxidd::bdd::BDDFunction;
use oxidd::zbdd::ZBDDFunction;
use oxidd::{BooleanFunction, Manager, ManagerRef};

macro_rules! check {
    ($new:path, $B:ty, $name:literal) => {{
        let mref = $new(1024, 1024, 1);
        mref.with_manager_exclusive(|m| {
            m.add_vars(3);
        });
        mref.with_manager_shared(|m| {
            let x0 = <$B>::var(m, 0).unwrap();
            let x1 = <$B>::var(m, 1).unwrap();
            let x2 = <$B>::var(m, 2).unwrap();
            let f = x0.and(&x1.or(&x2).unwrap()).unwrap(); // x0 ∧ (x1 ∨ x2)

            // total valuations
            for a in 0..8u32 {
                let expected = a & 1 != 0 && a & 0b110 != 0;
                assert_eq!(f.eval((0..3).map(|i| (i, a & (1 << i) != 0))), expected, $name);
            }

            // "Should there be a decision node for a variable not part of the
            // domain, then `false` is used as the decision value."
            assert_eq!(x1.eval([]), false, "{}: x1 under []", $name);
            assert_eq!(x1.eval([(0, true), (2, true)]), false, "{}: x1 under [x0, x2]", $name);
            assert_eq!(x1.not().unwrap().eval([]), true, "{}: ¬x1 under []", $name);
            assert_eq!(f.eval([(0, true)]), false, "{}: f under [x0]", $name);
            assert_eq!(f.eval([(1, true), (2, true)]), false, "{}: f under [x1, x2]", $name);
            assert_eq!(f.eval([(0, true), (2, true)]), true, "{}: f under [x0, x2]", $name);

            // the last value counts
            assert_eq!(x1.eval([(1, true), (1, false)]), false, $name);
            assert_eq!(x1.eval([(1, false), (1, true)]), true, $name);
        });
    }};
}

#[test]
fn eval_uses_false_for_missing_variables() {
    check!(oxidd::zbdd::new_manager, ZBDDFunction, "ZBDD");
    check!(oxidd::bdd::new_manager, BDDFunction, "BDD");
    check!(oxidd::bcdd::new_manager, BCDDFunction, "BCDD");
}
