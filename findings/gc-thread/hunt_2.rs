//! The GC thread of the index-based manager misses the `Quit` signal if it is
//! sent before the thread starts waiting.

use std::time::Duration;

fn gc_threads() -> usize {
    let mut n = 0;
    for e in std::fs::read_dir("/proc/self/task").unwrap() {
        let p = e.unwrap().path().join("comm");
        if let Ok(s) = std::fs::read_to_string(p) {
            if s.trim() == "oxidd mi gc" {
                n += 1;
            }
        }
    }
    n
}

#[test]
fn gc_thread_terminates() {
    for _ in 0..200 {
        let mref = oxidd::bdd::new_manager(1024, 128, 1);
        drop(mref);
    }
    // give the threads plenty of time to terminate
    let mut left = usize::MAX;
    for _ in 0..50 {
        left = gc_threads();
        if left == 0 {
            break;
        }
        std::thread::sleep(Duration::from_millis(100));
    }
    assert_eq!(left, 0, "leaked GC threads (and thus managers)");
}
