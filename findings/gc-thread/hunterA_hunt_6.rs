//! Automatic background garbage collection of the index-based manager must
//! stay functional after a collection that could not free enough nodes
//!
//! Place this file at `crates/oxidd/tests/hunt_6.rs` and run
//! `cargo test --offline -p oxidd --test hunt_6`
//! (index-based manager, i.e., default features).
#![cfg(not(feature = "manager-pointer"))]

use std::time::{Duration, Instant};

use oxidd::bdd::{BDDFunction, BDDManagerRef};
use oxidd::{BooleanFunction, Manager, ManagerRef};

fn wait_for(timeout: Duration, cond: impl Fn() -> bool) -> bool {
    let start = Instant::now();
    while !cond() {
        if start.elapsed() > timeout {
            return false;
        }
        std::thread::sleep(Duration::from_millis(5));
    }
    true
}

fn gc_count_and_nodes(mref: &BDDManagerRef) -> (u64, usize) {
    mref.with_manager_shared(|manager| (manager.gc_count(), manager.num_inner_nodes()))
}

#[test]
fn background_gc_is_rearmed() {
    // capacity 100: low water mark 90, high water mark 95
    let mref = oxidd::bdd::new_manager(100, 128, 1);
    mref.with_manager_exclusive(|manager| manager.add_vars(100));
    // Make sure that the GC thread is up and waiting (see `hunt_2.rs` for the
    // issue this works around)
    std::thread::sleep(Duration::from_millis(200));

    // 1. Exceed the high water mark with live nodes. This triggers a
    //    background garbage collection, but that cannot free anything.
    let live: Vec<BDDFunction> = mref.with_manager_shared(|manager| {
        (0..96).map(|i| BDDFunction::var(manager, i).unwrap()).collect()
    });
    assert!(
        wait_for(Duration::from_secs(2), || gc_count_and_nodes(&mref).0 == 1),
        "the first background GC did not run"
    );
    std::thread::sleep(Duration::from_millis(100)); // let the GC finish
    assert_eq!(gc_count_and_nodes(&mref), (1, 96));

    // 2. The application drops the functions and calls `gc()` itself (a
    //    reordering operation would have the same effect).
    drop(live);
    assert_eq!(mref.with_manager_shared(|manager| manager.gc()), 96);
    assert_eq!(gc_count_and_nodes(&mref), (2, 0));

    // 3. Exceed the high water mark again, this time with dead nodes only.
    //    (One `with_manager_shared()` call per node such that the shared
    //    node counter is up to date after each step.)
    for i in 0..96 {
        mref.with_manager_shared(|manager| drop(BDDFunction::var(manager, i).unwrap()));
    }
    // We expect the background garbage collection to kick in again.
    // Observed on the unmodified code: it never does, `(2, 96)` forever.
    let collected = wait_for(Duration::from_secs(2), || {
        gc_count_and_nodes(&mref) == (3, 0)
    });
    assert!(
        collected,
        "no background GC, (gc count, nodes) = {:?}",
        gc_count_and_nodes(&mref)
    );
}
