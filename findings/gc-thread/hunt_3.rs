use std::sync::{Arc, Barrier};
use std::time::Duration;

fn gc_threads() -> usize {
    let mut n = 0;
    for e in std::fs::read_dir("/proc/self/task").unwrap() {
        let p = e.unwrap().path().join("comm");
        if let Ok(s) = std::fs::read_to_string(p) {
            if s.trim() == "oxidd mi gc" {
                n += 1;
            }
        }
    }
    n
}

#[test]
fn gc_thread_terminates_concurrent_drop() {
    const T: usize = 4;
    for _ in 0..300 {
        let mref = oxidd::bdd::new_manager(1024, 128, 1);
        std::thread::sleep(Duration::from_millis(2)); // let the gc thread start waiting
        let barrier = Arc::new(Barrier::new(T));
        let hs: Vec<_> = (0..T)
            .map(|_| {
                let m = mref.clone();
                let b = barrier.clone();
                std::thread::spawn(move || {
                    b.wait();
                    drop(m);
                })
            })
            .collect();
        drop(mref);
        for h in hs {
            h.join().unwrap();
        }
    }
    let mut left = usize::MAX;
    for _ in 0..50 {
        left = gc_threads();
        if left == 0 {
            break;
        }
        std::thread::sleep(Duration::from_millis(100));
    }
    assert_eq!(left, 0, "leaked GC threads (and thus managers)");
}
