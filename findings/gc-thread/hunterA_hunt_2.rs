//! The garbage collection thread of the index-based manager must not miss
//! signals that are sent while it is not (yet) waiting
//!
//! Place this file at `crates/oxidd/tests/hunt_2.rs` and run
//! `cargo test --offline -p oxidd --test hunt_2 -- --test-threads=1`
//! (index-based manager, i.e., default features; Linux only because the thread
//! count is read from `/proc/self/status`).
#![cfg(all(target_os = "linux", not(feature = "manager-pointer")))]

use std::time::{Duration, Instant};

use oxidd::bdd::{BDDFunction, BDDManagerRef};
use oxidd::{BooleanFunction, Manager, ManagerRef};

/// Number of OS threads of this process
fn num_threads() -> usize {
    let status = std::fs::read_to_string("/proc/self/status").unwrap();
    let line = status.lines().find(|l| l.starts_with("Threads:")).unwrap();
    line.split_whitespace().nth(1).unwrap().parse().unwrap()
}

fn wait_for(timeout: Duration, cond: impl Fn() -> bool) -> bool {
    let start = Instant::now();
    while !cond() {
        if start.elapsed() > timeout {
            return false;
        }
        std::thread::sleep(Duration::from_millis(5));
    }
    true
}

/// Dropping the last `ManagerRef` must terminate the GC thread and free the
/// manager, regardless of how quickly this happens after creating the manager.
#[test]
fn dropped_manager_is_freed() {
    let before = num_threads();
    for _ in 0..100 {
        // one worker thread + the GC thread
        let mref = oxidd::bdd::new_manager(1024, 128, 1);
        drop(mref);
    }
    // observed on the unmodified code: all 200 threads (and the 100 node
    // stores, apply caches etc.) stay around forever
    assert!(
        wait_for(Duration::from_secs(5), || num_threads() <= before),
        "{} threads leaked",
        num_threads() - before
    );
}

/// Create `n` dead nodes (as fast as possible)
fn make_garbage(mref: &BDDManagerRef, n: u32) {
    mref.with_manager_shared(|manager| {
        for i in 0..n {
            BDDFunction::var(manager, i).unwrap();
        }
    });
}

/// Exceeding the high water mark must trigger a background garbage collection,
/// also if this happens right after creating the manager.
///
/// Note: Whether the signal is lost on the unmodified code depends on timing
/// (the GC thread must not have reached its `wait()` call when the signal is
/// sent). On the test machine, this happened in 24 to 40 of the 100 rounds.
#[test]
fn background_gc_right_after_creation() {
    let mut missed = 0;
    for _ in 0..100 {
        // capacity 100: low water mark 90, high water mark 95
        let mref = oxidd::bdd::new_manager(100, 128, 1);
        mref.with_manager_exclusive(|manager| manager.add_vars(96));
        make_garbage(&mref, 96);

        let collected = wait_for(Duration::from_millis(500), || {
            mref.with_manager_shared(|manager| {
                manager.gc_count() != 0 && manager.num_inner_nodes() == 0
            })
        });
        if !collected {
            // The signal was lost. Since the GC state remains "triggered",
            // there will be no further attempt: the 96 dead nodes stay.
            assert_eq!(mref.with_manager_shared(|manager| manager.num_inner_nodes()), 96);
            missed += 1;
        }
    }
    assert_eq!(missed, 0, "background GC did not run in {missed} of 100 cases");
}
